#!/usr/bin/env python3
"""Entry point of every check:  run.py <Cxx> [--tier quick|thorough] [--jobs N] | --replay FILE

exit 0  property held on everything explored (listed known findings are printed as KNOWN-FINDING)
exit 1  a reproduced, unlisted violation:  VIOLATION property=<id> replay=<path>
exit 2  the machinery itself is broken (tool missing, harness import error, vacuous harness)
"""
import os
import sys

HERE = os.path.dirname(os.path.abspath(__file__))
sys.path.insert(0, HERE)

from vlib import bootstrap  # noqa: E402


def main() -> int:
    py = bootstrap.ensure()
    if os.path.realpath(sys.executable) != os.path.realpath(py) and os.environ.get("VERIF_REEXEC") != "1":
        env = dict(os.environ, VERIF_REEXEC="1")
        env["PYTHONPATH"] = f"{os.environ.get('VERIF_REPO', '/repo')}:{HERE}"
        os.execve(py, [py, os.path.join(HERE, "run.py"), *sys.argv[1:]], env)
    from vlib import driver

    return driver.main(sys.argv[1:])


if __name__ == "__main__":
    sys.exit(main())
