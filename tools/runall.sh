#!/bin/bash
# usage: tools/runall.sh quick|thorough [props...]   - runs checks sequentially against /repo, writes evidence, prints one summary line each
tier=${1:-quick}; shift
props=${@:-C01 C02 C03 C04 C05 C06 C07 C08 C09 C10 C11 C12 C13 C14 C15 C16 C17 C18 C19 C20}
cd /verif
for p in $props; do
  python3 run.py $p --tier $tier 2>&1 | grep -E "tier=$tier|VIOLATION|HARNESS-ERROR|KNOWN-FINDING" | head -5
done
