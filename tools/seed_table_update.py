#!/usr/bin/env python3
"""Merge the outcome of tools/seed_sweep.py (seeded/sweep.jsonl, last line per seed wins) into tools/seed_table.json and
write seeded/README.md.  New seeds get their 'needs' text from the 'Needed to manifest' paragraph of the agent's notes."""
import json
import os
import re

VERIF = os.path.dirname(os.path.dirname(os.path.abspath(__file__)))
SRC = "/tmp/seeds"


def needs_of(sid):
    for base in (os.path.join(SRC, sid), os.path.join(VERIF, "seeded", sid)):
        p = os.path.join(base, "notes.md")
        if os.path.exists(p):
            text = open(p).read()
            m = re.search(r"Need(?:ed|s)(?: to manifest| history)?[^:\n]*:\s*(.+?)(?:\n\s*\n|\n- |\nCommands|\n#)", text, re.S)
            if m:
                return re.sub(r"\s+", " ", m.group(1)).strip()[:420]
    return ""


def main():
    tpath = os.path.join(VERIF, "tools", "seed_table.json")
    table = json.load(open(tpath))
    sweep = {}
    sp = os.path.join(VERIF, "seeded", "sweep.jsonl")
    if os.path.exists(sp):
        for ln in open(sp):
            rec = json.loads(ln)
            sweep[rec["id"]] = rec
    for sid, rec in sorted(sweep.items()):
        caught = [p for p, c in rec.get("checks", {}).items() if c.get("exit") == 1 and c.get("violations")]
        firsts = [c["first"][0][:200] for p, c in rec.get("checks", {}).items() if c.get("exit") == 1 and c.get("first")]
        m = re.match(r"(?:r\d)?c(\d\d)_", sid)
        row = table.setdefault(sid, {"property": "C" + m.group(1), "needs": needs_of(sid), "caught_by": [], "first": ""})
        if not row.get("needs"):
            row["needs"] = needs_of(sid)
        row["caught_by"] = caught
        row["confirmed"] = {"tests": rec.get("tests"), "demo_clean_exit": rec.get("demo_clean_exit"), "demo_mutated_exit": rec.get("demo_mutated_exit")}
        if firsts and (sid.startswith("r2") or not row.get("first")):
            row["first"] = "; ".join(firsts)[:300]
    json.dump(table, open(tpath, "w"), indent=1, ensure_ascii=False)
    lines = ["# Seeded changes", "",
             "Each directory holds `patch.diff` (applies to /repo with `git -C /repo apply`), the sub-agent's `demo.py` (exit 1 with the change, "
             "0 without), its `notes.md`, and `meta.json`. None is committed to /repo. All were confirmed with `tools/seedtest.py` (patch applies, "
             "719 tests pass, demonstration fails) and are reported by the quick tier of the checks named below (`tools/seed_sweep.py` re-runs "
             "them all; its last output is `sweep.jsonl`). Seeds `cNN_k` are round 1, `r2cNN_k` round 2.", "",
             "| seed | written against | needs to manifest | reported by | first reporting condition |", "|---|---|---|---|---|"]
    esc = lambda s: str(s).replace("|", "\\|").replace("\n", " ")
    for sid in sorted(table, key=lambda s: (s.startswith("r2"), s)):
        row = table[sid]
        lines.append(f"| {sid} | {row['property']} | {esc(row['needs'])} | {', '.join(row['caught_by']) or 'NOT REPORTED'} | {esc(row.get('first', ''))} |")
    open(os.path.join(VERIF, "seeded", "README.md"), "w").write("\n".join(lines) + "\n")
    print(len(table), "seeds;", sum(1 for r in table.values() if not r["caught_by"]), "not reported")


if __name__ == "__main__":
    main()
