#!/usr/bin/env python3
"""Refresh the commit hashes of 'fixed' entries in known_findings.json from /repo's history (matched by commit subject)."""
import json, subprocess, re, sys
p = '/verif/known_findings.json'
d = json.load(open(p))
log = subprocess.run(['git', '-C', '/repo', 'log', '--format=%h %s'], capture_output=True, text=True, check=True).stdout.splitlines()
by_subject = {l.split(' ', 1)[1]: l.split(' ', 1)[0] for l in log}
for f in d['findings']:
    if f.get('status') != 'fixed':
        continue
    subj = f.get('subject')
    if not subj or subj not in by_subject:
        print('no subject match for', f['id'], file=sys.stderr)
        continue
    new = by_subject[subj]
    old = f.get('commit')
    f['commit'] = new
    if old and old != new:
        f['what'] = f['what'].replace(old, new)
json.dump(d, open(p, 'w'), indent=1)
print('ok')
