#!/usr/bin/env python3
"""Print the DESIGN.md section 7.1 table from the plans (seed 0). Run: PYTHONPATH=/repo:/verif .venv/bin/python tools/plan_table.py"""
import collections
import importlib
import os
import sys

sys.path.insert(0, os.path.dirname(os.path.dirname(os.path.abspath(__file__))))
os.environ.setdefault("VERIF_P", "{}")
print("| property | harness functions (number of quick conditions) | quick: conditions + obligations | thorough: conditions + obligations |")
print("|---|---|---|---|")
for k in range(1, 21):
    pid = f"C{k:02d}"
    mod = importlib.import_module(f"props.{pid.lower()}")
    q = mod.plan("quick", 0)
    t = mod.plan("thorough", 0)
    fns = collections.Counter(c.fn for c in q.conditions)
    obs = collections.Counter(o.kind.split(" ")[0] for o in q.obligations)
    fn_s = ", ".join(f"{f} ({n})" for f, n in fns.items())
    ob_s = ", ".join(f"{f} ({n})" for f, n in obs.items()) or "-"
    print(f"| {pid} | {fn_s}; obligations: {ob_s} | {len(q.conditions)} + {len(q.obligations)} | {len(t.conditions)} + {len(t.obligations)} |")
