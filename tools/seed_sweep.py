#!/usr/bin/env python3
"""Run every seeded change under SEEDS (default /verif/seeded, else /tmp/seeds) against the quick check of the property it
was written for (and the other checks recorded as catching it), one after the other, each applied to /repo and reverted.

usage: tools/seed_sweep.py [--src DIR] [--match SUBSTR] [--prefix STR] [--out FILE]
Writes one JSON line per seed to FILE (default /verif/seeded/sweep.jsonl) and a summary to stdout.
"""
import json
import os
import re
import subprocess
import sys

VERIF = os.path.dirname(os.path.dirname(os.path.abspath(__file__)))


def main():
    args = sys.argv[1:]
    src, match, out = os.path.join(VERIF, "seeded"), "", os.path.join(VERIF, "seeded", "sweep.jsonl")
    if "--src" in args:
        i = args.index("--src"); src = args[i + 1]; del args[i:i + 2]
    if "--match" in args:
        i = args.index("--match"); match = args[i + 1]; del args[i:i + 2]
    prefix = ""
    if "--prefix" in args:
        i = args.index("--prefix"); prefix = args[i + 1]; del args[i:i + 2]
    if "--out" in args:
        i = args.index("--out"); out = args[i + 1]; del args[i:i + 2]
    table = json.load(open(os.path.join(VERIF, "tools", "seed_table.json")))
    seeds = sorted(d for d in os.listdir(src) if os.path.isfile(os.path.join(src, d, "patch.diff")) and match in d and d.startswith(prefix))
    missed = []
    with open(out, "a") as fh:
        for sid in seeds:
            m = re.match(r"(?:r\d)?c(\d\d)_", sid)
            own = "C" + m.group(1)
            props = [own] + [p for p in table.get(sid, {}).get("caught_by", []) if p != own]
            r = subprocess.run(["python3", os.path.join(VERIF, "tools", "seedtest.py"), os.path.join(src, sid)] + props,
                               capture_output=True, text=True)
            try:
                rec = json.loads(r.stdout.strip().splitlines()[-1])
            except Exception:  # noqa: BLE001
                rec = {"seed": sid, "error": (r.stdout + r.stderr)[-400:]}
            rec["id"] = sid
            fh.write(json.dumps(rec, ensure_ascii=False) + "\n")
            fh.flush()
            caught = [p for p, c in rec.get("checks", {}).items() if c.get("exit") == 1 and c.get("violations")]
            print(sid, "tests=", rec.get("tests"), "demo", rec.get("demo_clean_exit"), "->", rec.get("demo_mutated_exit"),
                  "caught_by", caught, rec.get("error", ""), flush=True)
            if not caught:
                missed.append(sid)
    print("missed:", missed)


if __name__ == "__main__":
    main()
