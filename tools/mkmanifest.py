#!/usr/bin/env python3
"""Regenerate /verif/MANIFEST.json from the table below (keeps the file valid at all times)."""
import json, os

CHECKS = {
 "C01": ("bounded symbolic execution (CrossHair+z3) of the selector resolve() functions vs an RFC 9535 reference evaluator; deterministic spelling-equivalence of the compiled structure",
         "Index and slice selectors decided for every integer of the configured range on arrays up to length 5/4; name, wildcard, list and descendant segments decided on document spines with symbolic leaves (int|str), lengths, presence and order; the verdict on each canonical query text transfers to every RFC spelling because all spellings compile to one structure.",
         "PySlice stub for the C slice object (validated against slice.indices each run); query text is a concrete catalogue; CrossHair models of CPython; oracle in vlib/oracle.py"),
 "C02": ("bounded symbolic execution of env.compare/_eq/_lt and of Filter.resolve on symbolic documents vs the RFC 9535 2.3.5/2.4 reference",
         "The comparison table is decided for every ordered pair of operand kinds (Nothing, null, bool, int, pooled float, str, array, object) and all six operators with symbolic contents; existence tests, logical trees to depth 3, the five functions and nested filters are decided through the real pipeline on documents with symbolic leaves and member presence.",
         "string ordering and regex subjects on pooled strings, floats from a pool; catalogue of expressions; oracle"),
 "C06": ("bounded symbolic execution of evaluation, pointer and patch entry points asserting the exception family; z3 regular-language inclusion of lexer token rules in the domain of the conversions applied to them",
         "Evaluation (sync, and async for a subset) with a value of every JSON kind at each operand position, pointer parse/resolve on symbolic text (escape decoding off) and over the alphabet Sigma, relative pointers, patch build/apply with symbolic member presence: only the documented error families escape, str(exc) works. Lane R decides for strings of any length that every token the parser converts is convertible or refused. Arbitrary query text is outside (probes only).",
         "lexer cannot be executed symbolically: query text is catalogue/probes; Sigma enumeration where a C codec sits in the way"),
 "C07": ("bounded symbolic execution of the integer range gate with symbolic limits; z3 regular-language inclusion RFC grammar vs live lexer rules; solver-driven enumeration of a finite typed program space through the real compiler",
         "Index/slice construction is decided for symbolic bounds and symbolic environment limits (slice: all integers); RFC int/number/member-name-shorthand/slice/blank languages are shown included in the live rules for strings of any length, and the index branch accepts only RFC ints; 33 atom kinds x 15 logical templates and 11 argument kinds x every parameter position are compiled and compared with an independent RFC 2.4.3 classification.",
         "typing rules beyond the finite template space are outside; program text is concretised"),
 "C08": ("bounded symbolic execution of every resolve_async/evaluate_async twin next to its sync counterpart on one symbolic document",
         "For a catalogue of standard, extended and compound queries (negative and out-of-range indices, zero steps, filter-context and root queries nested in filters) the async and sync results agree in values, order, paths, parts and exception class on documents with symbolic leaf kinds (strings and scalars in container positions), lengths and presence; also with an async item getter (immediate and suspending) under symbolic interleavings of two evaluations, for the document given as text / file / bytes, and when one compiled query is awaited twice on one document object.",
         "coroutines driven without an event loop; bounded schedules"),
 "C09": ("bounded symbolic execution of cached vs uncached filter evaluation, reuse histories and interleaved lazy iterators",
         "For 22 queries mixing cacheable and per-node sub-expressions, caching on/off, reuse, a d1,d2,d1 history, an evaluation left unfinished followed by another, two interleaved lazy iterators (filtered and plain descendant queries) and re-evaluation of one JSON text after the caller edited the results give identical results on symbolic documents and contexts, and nothing is modified.",
         "Optional[int] leaves; single-threaded; histories of three uses"),
 "C10": ("deterministic compile/str fixed-point obligations plus bounded symbolic execution comparing compile(q) with compile(str(compile(q))) on symbolic documents",
         "For ~200 catalogue queries (logical trees, literals, quoting, regex flags, non-standard identifiers, compound) the string form compiles, is a fixed point, and evaluates identically on documents with symbolic leaves and filter context.",
         "query catalogue is concrete; pooled strings for quoting/regex conditions"),
 "C11": ("bounded symbolic execution of all entry points on one symbolic document, compared with each other and with the union/intersection fold of the operands' own results",
         "findall/finditer/match/query (and the async twins) at environment, compiled and module level agree; compound queries with 2-4 operands equal the left-to-right fold, with symbolic leaf values deciding which intersections are empty; JSON text (blank-space-led too), text-file and binary-file forms agree over pooled leaves, and a second call on the same text is unaffected by what the caller did to the first call's results.",
         "text/file forms are enumeration over pooled leaves (json is a C boundary)"),
 "C04": ("bounded symbolic execution of JSONPointer parse/resolve/exists on symbolic member names and tokens vs an RFC 6901 reference",
         "Every node reachable: a symbolic member name (escape decoding off) or a Sigma name (decoding on and off) placed in four document shapes resolves through its RFC 6901 spelling to that very node; a last token applied to an array, primitive or object resolves exactly when RFC 6901 section 4 can evaluate it, otherwise raises a resolution error / returns the default, and exists() agrees; resolve_parent reaches the same node; digit tokens up to and including the index limit; the document as JSON text / file / bytes (blank-space-led too); one pointer text parsed under other options before.",
         "Obj: objects with a symbolic member name are pure-Python Mappings (a dict would realise the key); Sigma enumeration where the unicode-escape codec (C) sits in the way"),
 "C05": ("bounded symbolic execution of every Op.apply / JSONPatch.apply on a symbolic document vs an RFC 6902 section 4 reference",
         "One condition per operation kind x target kind (symbolic array index from 0 to len+2, '-', existing/new/digit-named member, root, missing or scalar parent, nested array) and per move/copy source x target pair: result as JSON value or error kind equals the reference; test equality decided with symbolic null/bool/int values on both sides; copy independence; sampled sequences of 2-3 operations; a patch whose container value is edited by its own later operations applied twice; patches applied twice to one JSON text.",
         "pointers passed as token tuples; indices >= 0; fixed document spine with symbolic length and leaves"),
 "C14": ("bounded symbolic execution of JSONPointer parse/print/from_parts/join/parent/is_relative_to/eq/hash vs the RFC 6901 token model",
         "Parse-print identity and equality-iff-token-sequences-equal on symbolic RFC 6901 text (decoding off) and on token lists over Sigma through from_parts, printing and re-parsing (decoding on and off); join and / with escaped tokens: spelling, parent, is_relative_to and resolve-then-step; join/parent chains; leading-slash replacement.",
         "Sigma / piece pools where the unicode-escape codec (always on in / and join) is a C boundary"),
 "C16": ("z3 regular-language inclusion of the draft's relative-pointer prefix grammar in the live RE_RELATIVE_POINTER groups; bounded execution of parse/print/to() vs the draft's definition over rendered pointers",
         "Lane R decides for offsets of any number of digits that the draft's prefix is inside the live pattern. Parse-print identity, to() equal to the draft's definition and the three forbidden applications are decided over 7 base shapes x final indices x steps x offsets (incl. multi-digit) x suffixes ('#', escaped, non-ASCII), through RelativeJSONPointer.to and JSONPointer.to; suffix tokens ending in blanks; base tokens containing a backslash or percent sign are not decoded again.",
         "relative pointer text is rendered from integers and passes through a C regex: solver-driven enumeration over pools"),
 "C15": ("bounded symbolic execution of the patch loader, builder methods, asdicts and Op.apply on symbolic values and documents",
         "For operation lists of 1-3 of the eight operations: the document form, the builder chain and JSONPatch(p.asdicts()) print the same dicts (given op names) and have the same effect; apply leaves the patch and the caller's list unchanged; a second application gives an equal, structurally independent result, including container values modified by a later operation; addne/addap vs add on 16 targets (digit-named members included); values include JSON null.",
         "pointer strings concrete (index from a pool of five spellings); lists up to 3 operations"),
 "C20": ("bounded symbolic execution of match.pointer() -> JSONPatch.test/replace/remove -> apply on documents with look-alike member names, vs editing a deep copy by the match's parts",
         "For every match of a query catalogue on documents whose member names are digits-only, signed look-alikes, '~', '/', empty or non-ASCII (symbolic leaves and array lengths): test with the matched value passes, replace/remove through the match's pointer (object and text form) edit exactly that location and nothing else; also through the async matching route with slices of |step| >= 2, and for two patches applied one after the other to the same JSON text.",
         "member names concrete (fixed set and a 16-name pool)"),
 "C12": ("bounded symbolic execution of the Query methods on a symbolic match sequence vs list slicing, counts concretised from a pool through the solver's path search",
         "Chains of 1-3 operations (limit/head/first, skip/drop, tail/last, take, tee, first_one/one, last_one) ending in each view are decided on $[*] over a symbolic list of length <= 4 with every count from -1 to length+2, including the remainder after take, the copies after tee and ValueError on negative counts; also on a match sequence in which one node occurs three times.",
         "counts are concretised before reaching itertools/deque (C): exhaustive over the pool, nothing outside it"),
 "C19": ("bounded symbolic execution of Query.select/_patch_obj/_fix_sparse_arrays on symbolic documents vs the projection definitions",
         "For 46 (match query, relative queries) cases, 14 more with empty containers / JSON-looking strings as leaves and matches, and 19 ancestor-before/after-descendant selections, under the three styles on spines with symbolic leaves (0/false/null included), lengths and integer-looking names: flat = selected values in order; relative/root = rank-compacted located values with no other leaves; nothing for non-container matches or empty selections; document unchanged.",
         "disjoint, per-array ascending selections; selected nodes located by the library's own finditer (decided under C01/C03)"),
 "C03": ("bounded symbolic execution of match construction, canonical_string, pointer derivation and re-compilation of the reported path for every match on a symbolic document",
         "For every match of a catalogue query: the path matches the RFC 9535 2.7 normalized-path grammar, evaluating it returns exactly that node (identity), parts / pointer / pointer text resolve to it, the parent is one step shorter, paths equal iff nodes equal; member-name text (quotes, backslash, controls, '/', '~', non-BMP) by enumeration over a 36-name pool, through the sync and async matching routes.",
         "member names concrete; name text is enumeration (json.dumps and the lexer are C boundaries)"),
 "C13": ("bounded symbolic execution of each extension spelling next to its standard spelling / documented reference on symbolic documents and filter contexts",
         "66 pairs covering implicit root and bare names, keys selector, fake root, current key, filter context at depth 1-2, in/contains, =~ with each flag, <>, and/or/not, undefined/missing, nil/none/capitalised literals - in lists, after descendant segments and in nested filters - evaluate identically (values, order, locations) on spines with symbolic leaves.",
         "extension query text is a concrete catalogue; regex subjects pooled"),
 "C17": ("deterministic structure/fixed-point obligations through the live lexer of subclassed environments plus bounded symbolic execution comparing custom-token, default-token and recompiled queries",
         "For 23 concrete token assignments (multi-character, prefix-related in both directions; 14 in the quick tier) x templates using every identifier: the custom spelling compiles to the default query's structure, its string form recompiles to it and is a fixed point, and all three (and the async route) return the same matches on symbolic documents and filter contexts.",
         "token assignments concrete (they are compiled into the lexer regex); spellings colliding with other syntax excluded"),
 "C18": ("solver-driven enumeration (CrossHair path search over option flags and pool indices) of the real argparse definition and sub-command handlers with the operating system stubbed, vs the corresponding library call",
         "PARTIAL claim. For the path, pointer and patch sub-commands: every combination of the boolean options, expression inline or from a file, output to stdout or a file, document from a file or stdin, over pools of 18 queries (multi-line query files included) / 13 pointers / 12 patches (accepted and rejected by the library) and 6 documents (valid, with non-finite numbers, truncated, not UTF-8, a bare string, empty): accepted inputs write exactly json.dumps of the library result and exit 0; rejected inputs exit 1 with one line on stderr, nothing on stdout and no escaping exception unless --debug. Everything is concretised by the pools: this is enumeration driven by the solver, not symbolic reasoning; it is claimed because it executes the real parser/handlers and decided two real defects.",
         "OS stub: argparse.FileType -> in-memory file table, sys.stdin/stdout/stderr -> StringIO, sys.exit observed as SystemExit; real files, encodings, process exit codes and interpreter tracebacks are outside"),
}
NA = {
}
ALL = [f"C{n:02d}" for n in range(1, 21)]
PENDING = "not claimed"

def main():
    here = os.path.dirname(os.path.dirname(os.path.abspath(__file__)))
    checks = []
    for pid in ALL:
        if pid not in CHECKS:
            continue
        tech, text, note = CHECKS[pid]
        checks.append({
            "property_id": pid,
            "quick_cmd": f"python3 run.py {pid} --tier quick",
            "thorough_cmd": f"python3 run.py {pid} --tier thorough",
            "evidence_file": f"/verif/evidence/{pid}.json",
            "replay_cmd_template": "python3 run.py --replay {path}",
            "engine": "lane-X" if pid not in ("C07",) else "lane-X+lane-R",
            "level_claimed": {"category": "other", "text": text + " Bounded: 'holds' means no counterexample on any path inside the stated bounds and the search finished; conditions that did not finish are reported as inconclusive in the evidence.", "design_ref": f"DESIGN.md section 4, {pid}"},
            "level_note": note + "; trusted base: CrossHair 0.0.110 models, z3 5.1.0, reference oracles; every counterexample replayed natively before it is reported",
            "technique": tech,
        })
    na = [{"property_id": p, "reason": r} for p, r in NA.items()]
    for pid in ALL:
        if pid not in CHECKS and pid not in NA:
            na.append({"property_id": pid, "reason": PENDING})
    m = {
        "version": 1,
        "setup_cmd": "python3 vlib/bootstrap.py",
        "hooks": {
            "guard": "JSONPATH_VERIF",
            "enable": "no source hooks: harnesses construct library objects directly and stub only their own instances",
            "baseline_off_cmd": "cd /repo && /venv/bin/python -m pytest -ra -q -p no:cacheprovider --timeout=900 --continue-on-collection-errors",
            "source_commits": [],
            "add_only": True,
        },
        "engines": [
            {"name": "lane-X", "path": "vlib/xh.py", "serves_properties": [p for p in ALL if p in CHECKS],
             "kind_free_text": "CrossHair 0.0.110 symbolic execution of the real /repo functions with z3; one OS process per condition; native replay of every counterexample"},
            {"name": "lane-R", "path": "vlib/rx.py", "serves_properties": ["C06", "C07", "C01", "C16"],
             "kind_free_text": "z3 regular-language inclusion/emptiness queries on the live lexer / pointer regular expressions translated from re._parser trees"},
        ],
        "checks": checks,
        "not_applicable": na,
        "notes": "All claims are bounded (see each evidence file: bounds per condition, inconclusive conditions listed). Genuine defects found by the checks were repaired by 'fix:' commits in /repo and are recorded in known_findings.json.",
    }
    with open(os.path.join(here, "MANIFEST.json"), "w") as fh:
        json.dump(m, fh, indent=1)
    print("wrote MANIFEST.json with", len(checks), "checks")

if __name__ == "__main__":
    main()
