#!/usr/bin/env python3
"""Assemble /verif/seeded/<id>/ from confirmed seeded changes (patch.diff, demo.py, notes.md, meta.json)."""
import json, os, shutil, sys

SRC = "/verif/seeded"
DST = "/verif/seeded"
# seed -> (property it was written against, what it needs to manifest, checks that report it, first reporting condition, status)
TABLE = json.load(open("/verif/tools/seed_table.json"))

def main():
    os.makedirs(DST, exist_ok=True)
    for sid, row in TABLE.items():
        src = os.path.join(SRC, sid)
        if not os.path.isdir(src):
            print("missing", sid); continue
        dst = os.path.join(DST, sid)
        os.makedirs(dst, exist_ok=True)
        for f in ("patch.diff", "demo.py", "notes.md"):
            if os.path.exists(os.path.join(src, f)) and os.path.abspath(src) != os.path.abspath(dst):
                shutil.copy(os.path.join(src, f), os.path.join(dst, f))
        meta = {
            "id": sid,
            "breaks_property": row["property"],
            "needs_to_manifest": row["needs"],
            "confirmed": "applied with `git -C /repo apply`, full test suite 719 passed, demo.py exits 1 with the change and 0 without (tools/seedtest.py)",
            "last_sweep": row.get("confirmed", {}),
            "ran": row.get("ran", "python3 tools/seedtest.py seeded/%s %s" % (sid, " ".join(row["caught_by"] or [row["property"]]))),
            "caught_by": row["caught_by"],
            "first_condition": row.get("first", ""),
            "history": row.get("history", ""),
        }
        json.dump(meta, open(os.path.join(dst, "meta.json"), "w"), indent=1, ensure_ascii=False)
    print("collected", len(TABLE))

if __name__ == "__main__":
    main()
