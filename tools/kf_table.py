#!/usr/bin/env python3
"""Regenerate DESIGN.md section 8.1 (the list of repairs) from known_findings.json."""
import json
import os
import re

VERIF = os.path.dirname(os.path.dirname(os.path.abspath(__file__)))
d = json.load(open(os.path.join(VERIF, "known_findings.json")))
rows = []
for f in d["findings"]:
    if f["status"] != "fixed":
        continue
    what = re.sub(r"^fixed: property=C\d\d \w+ ", "", f["what"]).replace("|", "\\|")[:260]
    rows.append("| %s | %s | %s | %s |" % (f["property"], f["commit"], f["subject"][5:], what))
tab = "| property | commit | repair (commit subject) | what failed and what reported it |\n|---|---|---|---|\n" + "\n".join(rows) + "\n"
p = os.path.join(VERIF, "DESIGN.md")
s = open(p).read()
marker = "## 9. False alarms corrected"
add = ("### 8.1 Complete list of repairs (generated from `known_findings.json` by `tools/kf_table.py`)\n\n"
       "Commit hashes are those of the current `/repo` history (`tools/refresh_kf.py` re-resolves them by subject\n"
       "after a history rewrite). Each line is one unguarded `fix:` commit; none touches a test.\n\n" + tab + "\n")
if "### 8.1 Complete list" in s:
    a = s.index("### 8.1 Complete list")
    b = s.index(marker)
    s = s[:a] + add + s[b:]
else:
    s = s.replace(marker, add + marker)
open(p, "w").write(s)
print(len(rows), "repairs listed")
