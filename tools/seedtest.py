#!/usr/bin/env python3
"""Apply a seeded change to /repo, confirm it (tests pass, demo fails), run the named checks, undo it.

usage: tools/seedtest.py SEED_DIR PROP [PROP ...] [--tier quick] [--only SUBSTR]
SEED_DIR contains patch.diff and demo.py.  Nothing is committed to /repo; the patch is reverted in all cases.
Prints one JSON line with the outcome.
"""
import json
import os
import subprocess
import sys
import time

REPO = "/repo"
VERIF = os.path.dirname(os.path.dirname(os.path.abspath(__file__)))


def sh(cmd, **kw):
    return subprocess.run(cmd, shell=isinstance(cmd, str), capture_output=True, text=True, **kw)


def main():
    args = sys.argv[1:]
    tier, only = "quick", None
    if "--tier" in args:
        i = args.index("--tier"); tier = args[i + 1]; del args[i:i + 2]
    if "--only" in args:
        i = args.index("--only"); only = args[i + 1]; del args[i:i + 2]
    seed = os.path.abspath(args[0])
    props = args[1:]
    out = {"seed": seed, "props": props}
    if sh(["git", "-C", REPO, "status", "--porcelain"]).stdout.strip():
        print(json.dumps({"error": "/repo is not clean"})); return 2
    patch = os.path.join(seed, "patch.diff")
    demo = os.path.join(seed, "demo.py")
    env = dict(os.environ, PYTHONPATH=REPO)
    r = sh(["/venv/bin/python", demo], env=env, cwd="/repo")
    out["demo_clean_exit"] = r.returncode
    a = sh(["git", "-C", REPO, "apply", patch])
    if a.returncode != 0:
        print(json.dumps(dict(out, error="patch does not apply: " + a.stderr[-300:]))); return 2
    try:
        t = sh("cd /repo && /venv/bin/python -m pytest -q -p no:cacheprovider --continue-on-collection-errors 2>&1 | tail -1")
        out["tests"] = t.stdout.strip()
        r = sh(["/venv/bin/python", demo], env=env, cwd="/repo")
        out["demo_mutated_exit"] = r.returncode
        out["checks"] = {}
        for p in props:
            t0 = time.time()
            cmd = ["python3", os.path.join(VERIF, "run.py"), p, "--tier", tier, "--no-evidence"]
            if only:
                cmd += ["--only", only]
            c = sh(cmd, cwd=VERIF)
            viol = [l for l in c.stdout.splitlines() if l.startswith("VIOLATION")]
            detail = [l.strip() for l in c.stdout.splitlines() if l.strip().startswith("condition=")]
            out["checks"][p] = {"exit": c.returncode, "violations": len(viol), "first": detail[:2], "wall_s": round(time.time() - t0)}
    finally:
        sh(["git", "-C", REPO, "checkout", "--", "."])
    out["repo_clean_after"] = not sh(["git", "-C", REPO, "status", "--porcelain"]).stdout.strip()
    print(json.dumps(out, ensure_ascii=False))
    return 0


if __name__ == "__main__":
    sys.exit(main())
