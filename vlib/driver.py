"""Check driver: runs a property's plan, replays counterexamples, writes evidence."""
from __future__ import annotations

import argparse
import hashlib
import re
import importlib
import json
import os
import subprocess
import sys
import time
from concurrent.futures import ThreadPoolExecutor
from dataclasses import dataclass, field
from typing import Any, Callable, Dict, List, Optional

from . import bootstrap, xh

VERIF = bootstrap.VERIF
REPO = xh.REPO
NATIVE_PY = "/venv/bin/python"
KF_FILE = os.path.join(VERIF, "known_findings.json")


@dataclass
class Obligation:
    """A lane-R (z3 regular-language) or deterministic obligation, run in-process."""

    oid: str
    run: Callable[[], Dict[str, Any]]  # -> {"status": discharged|violated|inconclusive, "detail":..., "replay": {...}?}
    kind: str = "z3-regex"
    required: bool = True
    note: str = ""


@dataclass
class Plan:
    conditions: List[xh.Condition] = field(default_factory=list)
    obligations: List[Obligation] = field(default_factory=list)
    selfchecks: List[Callable[[], Optional[str]]] = field(default_factory=list)  # return error text or None
    explanation: str = ""
    assumptions: List[str] = field(default_factory=list)
    outside: List[str] = field(default_factory=list)


def native_replay(rec: Dict[str, Any], tag: str) -> Dict[str, Any]:
    d = os.path.join(VERIF, "replays")
    os.makedirs(d, exist_ok=True)
    safe = re.sub(r"[^A-Za-z0-9_.=-]", "_", tag)[:80]
    if safe != tag:
        safe += "_" + hashlib.sha1(tag.encode("utf-8", "replace")).hexdigest()[:8]
    path = os.path.join(d, f"{safe}.json")
    with open(path, "w") as fh:
        json.dump(rec, fh, indent=1)
    env = dict(os.environ)
    env["PYTHONPATH"] = f"{REPO}:{VERIF}"
    env.pop("VERIF_REEXEC", None)
    try:
        p = subprocess.run(
            [NATIVE_PY, "-m", "vlib.replay", path],
            capture_output=True, text=True, env=env, cwd=VERIF, timeout=120,
        )
        code = p.returncode
        try:
            out = json.loads(p.stdout.strip().splitlines()[-1])
        except Exception:  # noqa: BLE001
            out = {"outcome": "machinery-error", "detail": (p.stdout + p.stderr)[-600:]}
            code = 5
    except subprocess.TimeoutExpired:
        # a replay that does not terminate natively is a failure of "always terminates"
        out, code = {"outcome": "fails", "raised": "native replay did not terminate in 120 s"}, 0
    out["code"] = code
    out["path"] = path
    return out


def load_kf(pid: str) -> List[Dict[str, Any]]:
    if not os.path.exists(KF_FILE):
        return []
    with open(KF_FILE) as fh:
        data = json.load(fh)
    return [f for f in data.get("findings", []) if f.get("property") == pid]


def main(argv: List[str]) -> int:
    ap = argparse.ArgumentParser()
    ap.add_argument("pid", nargs="?")
    ap.add_argument("--tier", default=os.environ.get("VERIF_TIER", "quick"))
    ap.add_argument("--jobs", type=int, default=int(os.environ.get("VERIF_JOBS", "16")))
    ap.add_argument("--replay")
    ap.add_argument("--only", default="")
    ap.add_argument("--no-twins", action="store_true")
    ap.add_argument("--no-evidence", action="store_true")
    a = ap.parse_args(argv)
    if a.tier not in ("quick", "thorough"):
        a.tier = "quick"
    seed = int(os.environ.get("VERIF_SEED", "0") or 0)

    if a.replay:
        with open(a.replay) as fh:
            rec = json.load(fh)
        out = native_replay(rec, "manual_" + os.path.basename(a.replay).replace(".json", ""))
        print(json.dumps(out, indent=1))
        return 1 if out["code"] == 0 else 0

    pid = a.pid.upper()
    t0 = time.time()
    try:
        mod = importlib.import_module(f"props.{pid.lower()}")
        plan: Plan = mod.plan(a.tier, seed)
    except Exception as e:  # noqa: BLE001
        import traceback

        traceback.print_exc()
        print(f"HARNESS-ERROR property={pid} cannot build plan: {type(e).__name__}: {e}")
        return 2

    for sc in plan.selfchecks:
        err = sc()
        if err:
            print(f"HARNESS-ERROR property={pid} selfcheck failed: {err}")
            return 2

    findings = load_kf(pid)
    open_ids = [f["id"] for f in findings if f.get("status") == "open"]
    conds = [c for c in plan.conditions if a.only in c.cid]
    for c in conds:
        c.kf = list(open_ids)

    results = xh.run_all(conds, jobs=a.jobs, twins=not a.no_twins)
    mains = [r for r in results if not r.twin]
    twins = [r for r in results if r.twin]

    violations: List[Dict[str, Any]] = []
    spurious: List[Dict[str, Any]] = []
    harness_errors: List[str] = []
    rows: List[Dict[str, Any]] = []

    def rec_of(r: xh.Result, twin: bool = False, trace: bool = False) -> Dict[str, Any]:
        return {
            "property": pid, "cid": r.cond.cid, "harness": r.cond.harness, "fn": r.cond.fn,
            "params": r.cond.params, "call": r.call, "kf": r.cond.kf, "twin": twin, "trace": trace,
        }

    # --- replay refuted main conditions natively
    refuted = [r for r in mains if r.verdict == "refuted"]
    with ThreadPoolExecutor(max_workers=a.jobs) as ex:
        outs = list(ex.map(lambda r: native_replay(rec_of(r), f"{pid}_{r.cond.cid}"), refuted))
    for r, o in zip(refuted, outs):
        oh = native_replay(dict(rec_of(r), history=True), f"{pid}_{r.cond.cid}") if o["code"] == 3 else None
        if o["code"] == 0:
            violations.append({"cid": r.cond.cid, "call": r.call, "replay": o["path"], "native": o})
        elif oh is not None and oh["code"] == 0:
            # passes on its own, fails after an earlier call of the same harness function: the verdict depends on call history
            o = oh
            violations.append({"cid": r.cond.cid, "call": f"{o.get('history')}", "replay": o["path"], "native": o})
            r.verdict = "refuted"
        elif o["code"] in (3, 4):
            r.verdict = "spurious"
            spurious.append({"cid": r.cond.cid, "call": r.call, "native": o.get("outcome")})
        else:
            r.verdict = "error"
            r.message = f"replay machinery: {o.get('detail')}"

    # --- twins: reachability witnesses; trace one native run per family for "functions executed"
    functions_seen: set = set()
    samples: List[Dict[str, Any]] = []
    good_twins = [t for t in twins if t.verdict == "refuted"]
    with ThreadPoolExecutor(max_workers=a.jobs) as ex:
        touts = list(ex.map(lambda r: native_replay(rec_of(r, twin=True, trace=True), f"{pid}_twin_{r.cond.family}"), good_twins))
    for t, o in zip(good_twins, touts):
        functions_seen.update(o.get("called", []))
        if len(samples) < 12:
            samples.append({"family": t.cond.family, "harness_fn": t.cond.fn, "params": t.cond.params, "reached_with": t.call})
    for t in twins:
        if t.verdict in ("confirmed", "unreached"):
            harness_errors.append(f"family {t.cond.family}: reachability twin came back {t.verdict} (vacuous harness)")
        elif t.verdict == "error":
            harness_errors.append(f"family {t.cond.family}: twin error: {t.message[:300]}")

    for r in mains:
        rows.append({
            "cid": r.cond.cid, "family": r.cond.family, "fn": r.cond.fn, "verdict": r.verdict,
            "wall_s": round(r.wall_s, 1), "timeout_s": r.cond.timeout, "required": r.cond.required,
            "bounds": r.cond.bounds, **({"call": r.call} if r.call else {}),
            **({"message": r.message[:300]} if r.verdict in ("error",) else {}),
        })
        if r.verdict == "error":
            harness_errors.append(f"{r.cond.cid}: {r.message[:300]}")

    # --- lane R / deterministic obligations (in-process)
    orows: List[Dict[str, Any]] = []
    for ob in plan.obligations:
        if a.only and a.only not in ob.oid:
            continue
        t1 = time.time()
        try:
            res = ob.run()
        except Exception as e:  # noqa: BLE001
            import traceback

            res = {"status": "error", "detail": f"{type(e).__name__}: {e}", "tb": traceback.format_exc()[-800:]}
        res = dict(res)
        res.update(oid=ob.oid, kind=ob.kind, wall_s=round(time.time() - t1, 2), required=ob.required)
        if res["status"] == "violated":
            rep = res.get("replay")
            if rep:
                rep = dict(rep, property=pid, cid=ob.oid, kf=open_ids)
                o = native_replay(rep, f"{pid}_{ob.oid}")
                if o["code"] == 0:
                    violations.append({"cid": ob.oid, "call": rep.get("call"), "replay": o["path"], "native": o, "detail": res.get("detail")})
                else:
                    res["status"] = "spurious"
                    spurious.append({"cid": ob.oid, "call": rep.get("call"), "native": o.get("outcome")})
            else:
                res["status"] = "error"
                res["detail"] = "violated without replay record: " + str(res.get("detail"))
        if res["status"] == "error":
            harness_errors.append(f"{ob.oid}: {res.get('detail')}")
        res.pop("replay", None)
        orows.append(res)

    # --- known findings: each listed open finding is replayed; printed when it still fails
    kf_lines: List[str] = []
    for f in findings:
        if f.get("status") != "open":
            continue
        w = dict(f["witness"], property=pid, cid=f["id"], kf=[])
        o = native_replay(w, f"{pid}_kf_{f['id']}")
        if o["code"] == 0:
            kf_lines.append(f"KNOWN-FINDING: property={pid} {f['id']}: {f['what']}")
        else:
            kf_lines.append(f"NOTE: listed finding {f['id']} no longer reproduces ({o.get('outcome')})")

    n_obl = len(mains) + len(orows)
    n_dis = sum(1 for r in mains if r.verdict == "confirmed") + sum(1 for o in orows if o["status"] == "discharged")
    n_inc = sum(1 for r in mains if r.verdict in ("inconclusive", "unreached", "spurious")) + sum(
        1 for o in orows if o["status"] in ("inconclusive", "spurious"))
    solver_s = sum(r.wall_s for r in results) + sum(o["wall_s"] for o in orows)
    wall = time.time() - t0

    for ln in kf_lines:
        print(ln)
    for v in violations:
        print(f"VIOLATION property={pid} replay={v['replay']}")
        nat = v["native"]
        print(f"  condition={v['cid']} call={v['call']} native={nat.get('raised') or nat.get('returned')} why={nat.get('why')}")
    for he in harness_errors:
        print(f"HARNESS-ERROR property={pid} {he}")
    print(f"{pid} tier={a.tier}: obligations={n_obl} discharged={n_dis} inconclusive={n_inc} "
          f"violations={len(violations)} spurious={len(spurious)} wall={wall:.0f}s solver_cpu={solver_s:.0f}s")
    for r in rows:
        if r["verdict"] != "confirmed":
            print(f"  {r['verdict']:13s} {r['cid']} ({r['wall_s']}s/{r['timeout_s']}s) {r.get('call', '')}")
    for o in orows:
        if o["status"] != "discharged":
            print(f"  {o['status']:13s} {o['oid']} {str(o.get('detail'))[:200]}")

    if not a.no_evidence and not a.only:
        ev = {
            "property_id": pid,
            "tier": a.tier,
            "seed": seed,
            "level": "other",
            "coverage": {
                "explanation": plan.explanation,
                "technique": "bounded symbolic execution of the real /repo functions (CrossHair 0.0.110 + z3), "
                             "plus z3 regular-language queries on the live lexer/pointer patterns; "
                             "every counterexample replayed natively",
                "obligations": n_obl,
                "discharged": n_dis,
                "inconclusive": n_inc,
                "evaluations": n_obl,
                "distinct_nontrivial": n_dis,
                "rule": "one obligation = one solver-decided condition (a harness function under a parameter set, "
                        "or one z3 language query); counted non-trivial when its verdict is 'confirmed over all paths' "
                        "/ unsat AND the family's reachability twin returned a concrete reached input",
                "samples": samples + [
                    {"obligation": o["oid"], "status": o["status"], "detail": str(o.get("detail"))[:200]} for o in orows[:6]],
                "conditions": rows,
                "regular_language_obligations": orows,
                "functions_executed": sorted(functions_seen),
                "solver_cpu_s": round(solver_s, 1),
                "reachability_twins": {"run": len(twins), "reached": len(good_twins)},
                "spurious_counterexamples": spurious,
                "known_findings_listed": [f["id"] for f in findings if f.get("status") == "open"],
                "outside_the_claim": plan.outside,
                "trusted_base": [
                    "CrossHair 0.0.110 models of CPython built-ins", "z3 5.1.0", "oracles in /verif/vlib/oracle.py",
                    "Python re._parser (regex parse trees)"],
                "checker_cmd": f"python3 run.py {pid} --tier {a.tier}",
                "exhaustive": False,
            },
            "assumptions": plan.assumptions,
            "wall_s": round(wall, 1),
            "violations": len(violations),
        }
        os.makedirs(os.path.join(VERIF, "evidence"), exist_ok=True)
        with open(os.path.join(VERIF, "evidence", f"{pid}.json"), "w") as fh:
            json.dump(ev, fh, indent=1, default=repr)
        if a.tier == "thorough":  # kept beside the per-change evidence, which the next quick run overwrites
            os.makedirs(os.path.join(VERIF, "evidence_thorough"), exist_ok=True)
            with open(os.path.join(VERIF, "evidence_thorough", f"{pid}.json"), "w") as fh:
                json.dump(ev, fh, indent=1, default=repr)

    if violations:
        return 1
    if harness_errors:
        return 2
    return 0
