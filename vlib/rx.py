"""Lane R: Python regular expressions -> z3 regular expressions; language queries.

The *live* pattern strings of /repo (lexer rule attributes, RE_RELATIVE_POINTER, ...) are
parsed with Python's own re._parser and translated to z3 Re terms. Obligations are
inclusion / emptiness queries over strings of unbounded length, decided by z3; a `sat`
answer yields a witness string that is replayed through the real API.

Not translated (raise Untranslatable): look-around (ASSERT / ASSERT_NOT), back-references,
conditional groups. A trailing/leading \\b and ^ $ are treated as the empty word (the
questions asked here are whole-token questions).
"""
from __future__ import annotations

import re
import sys
import unicodedata
from typing import Any, Callable, Dict, List, Optional, Tuple

import z3

try:  # Python 3.11+
    import re._parser as sre_parse
    import re._constants as sre_c
except ImportError:  # pragma: no cover
    import sre_parse
    import sre_constants as sre_c

MAXCHAR = 0x2FFFF  # z3's largest character
RS = z3.ReSort(z3.StringSort())


class Untranslatable(Exception):
    pass


def _ch(c: int) -> Any:
    return z3.Re(z3.StringVal(chr(c))) if c < 0x80 and chr(c).isprintable() and chr(c) not in '\\"' else z3.Range(_sv(c), _sv(c))


def _sv(c: int) -> Any:
    # z3.StringVal handles escapes itself; build via Unit(Char) for safety
    return z3.Unit(z3.CharVal(c))


def _range(lo: int, hi: int) -> Any:
    hi = min(hi, MAXCHAR)
    return z3.Range(_sv(lo), _sv(hi))


def _ranges_of(pred: Callable[[str], bool]) -> List[Tuple[int, int]]:
    out: List[Tuple[int, int]] = []
    start = None
    for c in range(0, MAXCHAR + 1):
        if 0xD800 <= c <= 0xDFFF:
            ok = False
        else:
            ok = pred(chr(c))
        if ok and start is None:
            start = c
        elif not ok and start is not None:
            out.append((start, c - 1))
            start = None
    if start is not None:
        out.append((start, MAXCHAR))
    return out


_CACHE: Dict[str, Any] = {}


def _union(rs: List[Any]) -> Any:
    if not rs:
        return z3.Empty(RS)
    if len(rs) == 1:
        return rs[0]
    return z3.Union(*rs)


def category(name: str) -> Any:
    if name in _CACHE:
        return _CACHE[name]
    if name == "digit":
        rs = _ranges_of(lambda ch: unicodedata.category(ch) == "Nd")
    elif name == "space":
        rs = _ranges_of(lambda ch: ch.isspace())
    elif name == "word":
        rs = _ranges_of(lambda ch: ch.isalnum() or ch == "_")
    else:
        raise Untranslatable(name)
    r = _union([_range(a, b) for a, b in rs])
    _CACHE[name] = r
    return r


ALLCHAR = z3.AllChar(RS)


def _not_in(r: Any) -> Any:
    return z3.Intersect(ALLCHAR, z3.Complement(r))


def _cat(code: Any) -> Any:
    n = str(code)
    neg = "NOT_" in n
    if "DIGIT" in n:
        r = category("digit")
    elif "SPACE" in n:
        r = category("space")
    elif "WORD" in n:
        r = category("word")
    else:
        raise Untranslatable(n)
    return _not_in(r) if neg else r


def _seq(items: Any, flags: int) -> Any:
    parts = [_node(op, av, flags) for op, av in items]
    parts = [p for p in parts if p is not None]
    if not parts:
        return z3.Re(z3.StringVal(""))
    if len(parts) == 1:
        return parts[0]
    return z3.Concat(*parts)


def _node(op: Any, av: Any, flags: int) -> Any:
    name = str(op)
    if name == "LITERAL":
        return z3.Range(_sv(av), _sv(av))
    if name == "NOT_LITERAL":
        return _not_in(z3.Range(_sv(av), _sv(av)))
    if name == "ANY":
        if flags & re.DOTALL:
            return ALLCHAR
        return _not_in(z3.Range(_sv(10), _sv(10)))
    if name == "IN":
        neg = False
        rs = []
        for o, a in av:
            on = str(o)
            if on == "NEGATE":
                neg = True
            elif on == "LITERAL":
                rs.append(z3.Range(_sv(a), _sv(a)))
            elif on == "RANGE":
                if a[0] <= MAXCHAR:
                    rs.append(_range(a[0], a[1]))
            elif on == "CATEGORY":
                rs.append(_cat(a))
            else:
                raise Untranslatable(on)
        r = _union(rs)
        return _not_in(r) if neg else r
    if name == "BRANCH":
        return _union([_seq(alt, flags) for alt in av[1]])
    if name == "SUBPATTERN":
        return _seq(av[3], flags)
    if name in ("MAX_REPEAT", "MIN_REPEAT", "POSSESSIVE_REPEAT"):
        lo, hi, sub = av
        r = _seq(sub, flags)
        if hi == sre_c.MAXREPEAT:
            if lo == 0:
                return z3.Star(r)
            if lo == 1:
                return z3.Plus(r)
            return z3.Concat(z3.Loop(r, lo, lo), z3.Star(r))
        if lo == 0 and hi == 1:
            return z3.Option(r)
        return z3.Loop(r, lo, hi)
    if name == "AT":
        return None  # ^ $ \b treated as the empty word (whole-token questions only)
    if name == "CATEGORY":
        return _cat(av)
    raise Untranslatable(name)


def to_z3(pattern: str, flags: int = 0) -> Any:
    """z3 regular expression for the language of full matches of *pattern*."""
    tree = sre_parse.parse(pattern, flags)
    return _seq(tree, flags | tree.state.flags)


def group_pattern(pattern: str, group: str) -> str:
    """Source text of the named group inside *pattern* (balanced parentheses scan)."""
    key = f"(?P<{group}>"
    i = pattern.index(key)
    j = i + len(key)
    depth = 1
    k = j
    in_class = False
    while k < len(pattern):
        c = pattern[k]
        if c == "\\":
            k += 2
            continue
        if in_class:
            if c == "]":
                in_class = False
        elif c == "[":
            in_class = True
        elif c == "(":
            depth += 1
        elif c == ")":
            depth -= 1
            if depth == 0:
                return pattern[j:k]
        k += 1
    raise ValueError(group)


# ------------------------------------------------------------------ reference languages
def lit(s: str) -> Any:
    return z3.Re(z3.StringVal(s))


def chars(s: str) -> Any:
    return _union([z3.Range(_sv(ord(c)), _sv(ord(c))) for c in s])


D09 = z3.Range(z3.StringVal("0"), z3.StringVal("9"))
D19 = z3.Range(z3.StringVal("1"), z3.StringVal("9"))


def rfc_int() -> Any:
    """RFC 9535: int = "0" / (["-"] DIGIT1 *DIGIT)"""
    return z3.Union(lit("0"), z3.Concat(z3.Option(lit("-")), D19, z3.Star(D09)))


def rfc_number() -> Any:
    """RFC 9535: number = (int / "-0") [ frac ] [ exp ]"""
    frac = z3.Concat(lit("."), z3.Plus(D09))
    exp = z3.Concat(chars("eE"), z3.Option(chars("+-")), z3.Plus(D09))
    return z3.Concat(z3.Union(rfc_int(), lit("-0")), z3.Option(frac), z3.Option(exp))


def rfc_blank() -> Any:
    """RFC 9535: S = *B ; B = %x20 / %x09 / %x0A / %x0D"""
    return z3.Star(chars(" \t\n\r"))


def rfc_name_shorthand() -> Any:
    """member-name-shorthand = name-first *name-char (code points capped at z3's max char)."""
    alpha = z3.Union(z3.Range(z3.StringVal("a"), z3.StringVal("z")), z3.Range(z3.StringVal("A"), z3.StringVal("Z")))
    nonascii = z3.Union(_range(0x80, 0xD7FF), _range(0xE000, MAXCHAR))
    first = z3.Union(alpha, lit("_"), nonascii)
    return z3.Concat(first, z3.Star(z3.Union(first, D09)))


def py_int_domain() -> Any:
    """Strings accepted by Python's int(str): blanks, sign, Unicode decimal digits with single underscores."""
    ws = z3.Star(category("space"))
    d = category("digit")
    digits = z3.Concat(z3.Plus(d), z3.Star(z3.Concat(lit("_"), z3.Plus(d))))
    return z3.Concat(ws, z3.Option(chars("+-")), digits, ws)


def py_float_domain() -> Any:
    ws = z3.Star(category("space"))
    d = category("digit")
    digits = z3.Concat(z3.Plus(d), z3.Star(z3.Concat(lit("_"), z3.Plus(d))))
    mant = z3.Union(z3.Concat(digits, z3.Option(z3.Concat(lit("."), z3.Option(digits)))), z3.Concat(lit("."), digits))
    exp = z3.Concat(chars("eE"), z3.Option(chars("+-")), digits)

    def ci(word: str) -> Any:
        return z3.Concat(*[chars(c.lower() + c.upper()) for c in word])

    special = z3.Union(ci("inf"), ci("infinity"), ci("nan"))
    return z3.Concat(ws, z3.Option(chars("+-")), z3.Union(z3.Concat(mant, z3.Option(exp)), special), ws)


def validate_domain(name: str, dom: Any, conv: Callable[[str], Any], n: int = 12) -> Optional[str]:
    """Push z3-generated members and non-members through the real conversion."""
    x = z3.String("x")
    for member in (True, False):
        s = z3.Solver()
        s.set("timeout", 20000)
        s.add(z3.InRe(x, dom) if member else z3.Not(z3.InRe(x, dom)))
        s.add(z3.Length(x) <= 6)
        # keep candidates near the interesting alphabet for non-members
        if not member:
            s.add(z3.InRe(x, z3.Star(z3.Union(category("digit"), chars("+-_.eE infa\t")))))
        for _ in range(n):
            if str(s.check()) != "sat":
                break
            w = s.model().eval(x, model_completion=True).as_string()
            w = _unescape(w)
            try:
                conv(w)
                accepted = True
            except ValueError:
                accepted = False
            if accepted != member:
                return f"{name} domain model wrong on {w!r}: real accepts={accepted}, model member={member}"
            s.add(x != z3.StringVal(_z3escape(w)))
    return None


def _unescape(s: str) -> str:
    """z3 prints non-ASCII as \\u{XXXX}."""
    return re.sub(r"\\u\{([0-9a-fA-F]+)\}", lambda m: chr(int(m.group(1), 16)), s)


def _z3escape(s: str) -> str:
    return "".join(c if 0x20 <= ord(c) < 0x7F and c != "\\" else "\\u{%x}" % ord(c) for c in s)


# ------------------------------------------------------------------ queries
def shape_regex(w: str) -> Any:
    """Generalise a witness to its shape class.

    A run of decimal digits becomes: "0" | 0 followed by digits (leading zero) | a run starting 1-9
    | a run containing a non-ASCII decimal digit; a run of blanks becomes blank+; every other
    character stays literal.
    """
    nd = category("digit")
    parts = []
    i = 0
    while i < len(w):
        c = w[i]
        if unicodedata.category(c) == "Nd":
            j = i
            while j < len(w) and unicodedata.category(w[j]) == "Nd":
                j += 1
            run = w[i:j]
            if not run.isascii():
                parts.append(z3.Intersect(z3.Plus(nd), z3.Complement(z3.Plus(D09))))
            elif run == "0":
                parts.append(lit("0"))
            elif run[0] == "0":
                parts.append(z3.Concat(lit("0"), z3.Plus(D09)))
            else:
                parts.append(z3.Concat(D19, z3.Star(D09)))
            i = j
        elif c.isspace():
            j = i
            while j < len(w) and w[j].isspace():
                j += 1
            parts.append(z3.Plus(category("space")))
            i = j
        else:
            parts.append(z3.Range(_sv(ord(c)), _sv(ord(c))))
            i += 1
    if not parts:
        return lit("")
    return parts[0] if len(parts) == 1 else z3.Concat(*parts)


def difference_witnesses(
    lang: Any, minus: Any, screen: Callable[[str], Optional[str]], max_shapes: int = 40, timeout_ms: int = 30000
) -> Dict[str, Any]:
    """Decide L(lang) subset L(minus); on `sat` enumerate one witness per shape class.

    screen(w) -> None when the real code handles w acceptably, else a description of the failure.
    Returns {"status": discharged|violated|inconclusive, "witnesses": [...], ...}
    """
    x = z3.String("x")
    remaining = z3.Intersect(lang, z3.Complement(minus))
    tried: List[str] = []
    ascii_star = z3.Star(_range(0x20, 0x7E))
    for _ in range(max_shapes):
        # one positive membership in a single (intersected) regex per query: z3 decides these quickly,
        # whereas several negated memberships on one string variable often come back `unknown`
        r = "unknown"
        w = None
        for cand in (z3.Intersect(remaining, ascii_star), remaining):
            s = z3.Solver()
            s.set("timeout", timeout_ms)
            s.add(z3.InRe(x, cand))
            r = str(s.check())
            if r == "sat":
                w = _unescape(s.model().eval(x, model_completion=True).as_string())
                break
            if r != "unsat":
                break
        if r == "unsat":
            if not tried:
                return {"status": "discharged", "detail": "z3: inclusion holds (unsat), strings of any length", "witnesses": []}
            return {"status": "discharged", "witnesses": tried,
                    "detail": f"language difference is non-empty but the real code handles one representative of each of its "
                              f"{len(tried)} shape classes: {tried!r}"}
        if r != "sat":
            return {"status": "inconclusive", "detail": f"z3 answered {r}", "witnesses": tried}
        tried.append(w)
        bad = screen(w)
        if bad:
            return {"status": "violated", "detail": f"witness {w!r}: {bad}", "witness": w, "witnesses": tried}
        remaining = z3.Intersect(remaining, z3.Complement(shape_regex(w)))
    return {"status": "inconclusive", "detail": f"more than {max_shapes} shape classes", "witnesses": tried}


def is_subset(a: Any, b: Any, timeout_ms: int = 30000) -> Tuple[str, Optional[str]]:
    x = z3.String("x")
    s = z3.Solver()
    s.set("timeout", timeout_ms)
    s.add(z3.InRe(x, a), z3.Not(z3.InRe(x, b)))
    r = str(s.check(z3.InRe(x, z3.Star(_range(0x20, 0x7E)))))
    if r != "sat":
        r = str(s.check())
    if r == "sat":
        return "sat", _unescape(s.model().eval(x, model_completion=True).as_string())
    return r, None
