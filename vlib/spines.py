"""Document spines: concrete container shapes whose leaves, array lengths, member
presence and member order are the symbolic holes."""
from __future__ import annotations

from typing import Any, List

SPINES = ["arr", "obj2", "nest1", "nest2", "nest3", "deep", "objarr", "numkeys", "wrapobjarr", "nestk", "quotekeys"]


def build(spine: str, L: List[Any], n: int, b: List[bool]) -> Any:
    """L: >= 6 leaves, n: small non-negative int (caller bounds it), b: >= 3 booleans."""
    if spine == "arr":
        out = []
        for i in range(4):
            if i < n:
                out.append(L[i])
        return out
    if spine == "obj2":
        d = {}
        if b[2]:
            if b[0]:
                d["a"] = L[0]
            if b[1]:
                d["b"] = L[1]
        else:
            if b[1]:
                d["b"] = L[1]
            if b[0]:
                d["a"] = L[0]
        return d
    if spine == "nest1":
        arr = []
        for i in range(2):
            if i < n:
                arr.append(L[i])
        inner = {"a": L[2], "b": L[3]}
        if b[0]:
            return {"a": arr, "b": inner}
        return {"b": inner, "a": arr}
    if spine == "nest2":
        first = {"a": L[0]} if b[0] else {"b": L[0]}
        return [first, {"a": L[1], "b": L[2]}, L[3]]
    if spine == "nest3":
        return [[L[0]], [L[1], [L[2]]], L[3]]
    if spine == "deep":
        x = {"a": {"a": L[0], "b": L[1]}, "b": L[2]}
        y = [L[3], {"a": L[4]}]
        if b[0]:
            return {"a": x, "b": y}
        return {"b": y, "a": x}
    if spine == "objarr":
        # array of objects, length symbolic: the usual filter target
        out = []
        for i in range(3):
            if i < n:
                out.append({"a": L[2 * i], "b": L[2 * i + 1]} if b[i] else {"a": L[2 * i]})
        return out
    if spine == "wrapobjarr":
        # an array of two-member objects under a name: a node two levels below an array index has siblings
        out = []
        for i in range(3):
            if i < n:
                out.append({"a": L[2 * i], "b": L[2 * i + 1]})
        return {"xs": out, "k": L[5]}
    if spine == "nestk":
        # the root and a candidate both have a member "k": `$` inside a nested filter must keep denoting the root
        xs = []
        for i in range(2):
            if i < n:
                xs.append({"a": L[2 + i]})
        return {"k": L[0], "items": [{"k": L[1], "xs": xs}, {"xs": [{"a": L[0]}]}]}
    if spine == "quotekeys":
        # member names that need escaping in a normalized path
        return {"it's": L[0], "x']['y": L[1], "b\\": [L[2], L[3]], "x": {"y": L[1]}}
    if spine == "numkeys":
        d = {}
        if b[0]:
            d["0"] = L[0]
        if b[1]:
            d["1"] = L[1]
        if b[2]:
            d["-1"] = L[2]
        d["a"] = [L[3], L[4]]
        return d
    raise KeyError(spine)
