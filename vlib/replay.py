"""Native replay of a counterexample (no CrossHair in this process).

usage: python -m vlib.replay FILE.json     (PYTHONPATH must contain /repo and /verif)

FILE.json: {"harness": "harness/c01.py", "fn": "...", "params": {...}, "call": "fn(1, 'x')", "kf": [...]}
exit 0: the counterexample reproduces (function returns falsy or raises) -> genuine
exit 3: it does not reproduce (spurious: engine model fault)
exit 4: the arguments do not satisfy the harness precondition natively
exit 5: replay machinery error

With "history": true in FILE.json the question is another one: the call passes on its own (exit 3 above) - does it still
pass when one *earlier call* of the same harness function came first?  The candidates for the earlier call are the
counterexample's neighbours (one argument changed: an int moved by up to 3 or set to 0..3, a bool flipped); each is tried
in a forked child (fresh module state).  exit 0 and "history": [earlier, call] when the verdict of the call depends on the
earlier one - the property must hold for every history - otherwise exit 3.
Prints one JSON line describing the outcome.
"""
from __future__ import annotations

import importlib
import inspect
import json
import os
import re
import sys
import traceback


def main(argv: list) -> int:
    path = argv[1]
    with open(path) as fh:
        rec = json.load(fh)
    os.environ["VERIF_P"] = json.dumps(rec.get("params", {}))
    os.environ["VERIF_TWIN"] = "1" if rec.get("twin") else "0"
    os.environ["VERIF_KF"] = ",".join(rec.get("kf", []))
    modname = rec["harness"][:-3].replace("/", ".")
    trace = rec.get("trace", False)
    out = {"fn": rec["fn"], "call": rec["call"]}
    try:
        mod = importlib.import_module(modname)
        fn = getattr(mod, rec["fn"])
        ns = dict(vars(mod))
        ns["float"] = float
        ns[rec["fn"]] = lambda *a, **k: (a, k)
        args, kwargs = eval(rec["call"], ns)  # noqa: S307 - our own counterexample text
        bound = inspect.signature(fn).bind(*args, **kwargs)
        bound.apply_defaults()
    except BaseException as e:  # noqa: BLE001
        out.update(outcome="machinery-error", detail=f"{type(e).__name__}: {e}")
        print(json.dumps(out))
        return 5
    # preconditions
    doc = inspect.getdoc(fn) or ""
    for m in re.finditer(r"^\s*pre:\s*(.+)$", doc, re.M):
        try:
            if not eval(m.group(1), vars(mod), dict(bound.arguments)):  # noqa: S307
                out.update(outcome="precondition-not-met", detail=m.group(1))
                print(json.dumps(out))
                return 4
        except BaseException as e:  # noqa: BLE001
            out.update(outcome="precondition-not-met", detail=f"{m.group(1)}: {type(e).__name__}: {e}")
            print(json.dumps(out))
            return 4
    if rec.get("history"):
        return _history(fn, bound, out)
    called = set()
    if trace:
        repo = os.environ.get("VERIF_REPO", "/repo")

        def prof(frame, event, arg):  # noqa: ANN001
            if event == "call":
                fnm = frame.f_code.co_filename
                if fnm.startswith(repo):
                    called.add(f"{os.path.relpath(fnm, repo)}:{frame.f_code.co_qualname}")

        sys.setprofile(prof)
    try:
        res = fn(*bound.args, **bound.kwargs)
        sys.setprofile(None)
        if res:
            out.update(outcome="passes", returned=repr(res))
            code = 3
        else:
            out.update(outcome="fails", returned=repr(res))
            code = 0
    except Exception as e:  # noqa: BLE001
        sys.setprofile(None)
        out.update(outcome="fails", raised=f"{type(e).__name__}: {e}", tb=traceback.format_exc()[-1500:])
        code = 0
    if trace:
        out["called"] = sorted(called)
    try:
        from vlib import hs as _hs

        if _hs.WHY:
            out["why"] = [str(w)[:400] for w in _hs.WHY[-6:]]
    except Exception:  # noqa: BLE001
        pass
    print(json.dumps(out, default=repr))
    return code


def _neighbours(args: tuple) -> list:
    outl = []
    for k, v in enumerate(args):
        alts: list = []
        if isinstance(v, bool):
            alts = [not v]
        elif isinstance(v, int):
            alts = [x for x in dict.fromkeys([v - 1, v + 1, v - 2, v + 2, v - 3, v + 3, 0, 1, 2, 3]) if x != v]
        for x in alts:
            outl.append(args[:k] + (x,) + args[k + 1:])
    return outl[:80]


def _history(fn, bound, out: dict) -> int:  # noqa: ANN001
    """Fork one child per candidate earlier call; the child runs [earlier, call] and reports the call's verdict."""
    import inspect as _inspect

    doc = _inspect.getdoc(fn) or ""
    pres = [m.group(1) for m in re.finditer(r"^\s*pre:\s*(.+)$", doc, re.M)]
    names = list(bound.arguments.keys())
    mod = sys.modules[fn.__module__]
    args = tuple(bound.args)
    for cand in _neighbours(args):
        try:
            if not all(eval(p, vars(mod), dict(zip(names, cand))) for p in pres):  # noqa: S307
                continue
        except BaseException:  # noqa: BLE001
            continue
        r, w = os.pipe()
        pid = os.fork()
        if pid == 0:
            os.close(r)
            verdict = "passes"
            try:
                try:
                    fn(*cand)
                except Exception:  # noqa: BLE001
                    pass
                from vlib import hs as _hs

                del _hs.WHY[:]
                try:
                    if not fn(*args):
                        verdict = "fails"
                except Exception as e:  # noqa: BLE001
                    verdict = "fails"
                    _hs.WHY.append(f"raised {type(e).__name__}: {e}")
                os.write(w, json.dumps({"verdict": verdict, "why": [str(x)[:400] for x in _hs.WHY[-4:]]}).encode())
            finally:
                os._exit(0)
        os.close(w)
        data = b""
        while True:
            chunk = os.read(r, 65536)
            if not chunk:
                break
            data += chunk
        os.close(r)
        os.waitpid(pid, 0)
        try:
            res = json.loads(data.decode())
        except Exception:  # noqa: BLE001
            continue
        if res.get("verdict") == "fails":
            out.update(outcome="fails", returned="False after an earlier call (passes on its own)",
                       history=[repr(cand), repr(args)], why=res.get("why"))
            print(json.dumps(out, default=repr))
            return 0
    out.update(outcome="passes", returned="True after every candidate earlier call")
    print(json.dumps(out, default=repr))
    return 3


if __name__ == "__main__":
    sys.exit(main(sys.argv))
