"""Native replay of a counterexample (no CrossHair in this process).

usage: python -m vlib.replay FILE.json     (PYTHONPATH must contain /repo and /verif)

FILE.json: {"harness": "harness/c01.py", "fn": "...", "params": {...}, "call": "fn(1, 'x')", "kf": [...]}
exit 0: the counterexample reproduces (function returns falsy or raises) -> genuine
exit 3: it does not reproduce (spurious: engine model fault)
exit 4: the arguments do not satisfy the harness precondition natively
exit 5: replay machinery error
Prints one JSON line describing the outcome.
"""
from __future__ import annotations

import importlib
import inspect
import json
import os
import re
import sys
import traceback


def main(argv: list) -> int:
    path = argv[1]
    with open(path) as fh:
        rec = json.load(fh)
    os.environ["VERIF_P"] = json.dumps(rec.get("params", {}))
    os.environ["VERIF_TWIN"] = "1" if rec.get("twin") else "0"
    os.environ["VERIF_KF"] = ",".join(rec.get("kf", []))
    modname = rec["harness"][:-3].replace("/", ".")
    trace = rec.get("trace", False)
    out = {"fn": rec["fn"], "call": rec["call"]}
    try:
        mod = importlib.import_module(modname)
        fn = getattr(mod, rec["fn"])
        ns = dict(vars(mod))
        ns["float"] = float
        ns[rec["fn"]] = lambda *a, **k: (a, k)
        args, kwargs = eval(rec["call"], ns)  # noqa: S307 - our own counterexample text
        bound = inspect.signature(fn).bind(*args, **kwargs)
        bound.apply_defaults()
    except BaseException as e:  # noqa: BLE001
        out.update(outcome="machinery-error", detail=f"{type(e).__name__}: {e}")
        print(json.dumps(out))
        return 5
    # preconditions
    doc = inspect.getdoc(fn) or ""
    for m in re.finditer(r"^\s*pre:\s*(.+)$", doc, re.M):
        try:
            if not eval(m.group(1), vars(mod), dict(bound.arguments)):  # noqa: S307
                out.update(outcome="precondition-not-met", detail=m.group(1))
                print(json.dumps(out))
                return 4
        except BaseException as e:  # noqa: BLE001
            out.update(outcome="precondition-not-met", detail=f"{m.group(1)}: {type(e).__name__}: {e}")
            print(json.dumps(out))
            return 4
    called = set()
    if trace:
        repo = os.environ.get("VERIF_REPO", "/repo")

        def prof(frame, event, arg):  # noqa: ANN001
            if event == "call":
                fnm = frame.f_code.co_filename
                if fnm.startswith(repo):
                    called.add(f"{os.path.relpath(fnm, repo)}:{frame.f_code.co_qualname}")

        sys.setprofile(prof)
    try:
        res = fn(*bound.args, **bound.kwargs)
        sys.setprofile(None)
        if res:
            out.update(outcome="passes", returned=repr(res))
            code = 3
        else:
            out.update(outcome="fails", returned=repr(res))
            code = 0
    except Exception as e:  # noqa: BLE001
        sys.setprofile(None)
        out.update(outcome="fails", raised=f"{type(e).__name__}: {e}", tb=traceback.format_exc()[-1500:])
        code = 0
    if trace:
        out["called"] = sorted(called)
    try:
        from vlib import hs as _hs

        if _hs.WHY:
            out["why"] = [str(w)[:400] for w in _hs.WHY[-6:]]
    except Exception:  # noqa: BLE001
        pass
    print(json.dumps(out, default=repr))
    return code


if __name__ == "__main__":
    sys.exit(main(sys.argv))
