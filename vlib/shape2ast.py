"""Convert a compiled /repo query into the oracle AST (only for oracle self-validation
against the repository's pinned example tables; never used to produce expected results
for the conditions themselves)."""
from __future__ import annotations

from typing import Any, Optional


class Unsupported(Exception):
    pass


def ast_of(path: Any) -> Optional[list]:
    try:
        return _query(path)
    except Unsupported:
        return None


def _query(path: Any) -> list:
    from jsonpath import selectors as S
    from jsonpath.path import JSONPath

    if not isinstance(path, JSONPath) or path.fake_root:
        raise Unsupported
    segs = []
    desc = False
    for sel in path.selectors:
        if isinstance(sel, S.RecursiveDescentSelector):
            if desc:
                raise Unsupported
            desc = True
            continue
        items = sel.items if isinstance(sel, S.ListSelector) else [sel]
        segs.append(["desc" if desc else "child", [_sel(i) for i in items]])
        desc = False
    if desc:
        raise Unsupported
    return segs


def _sel(sel: Any) -> list:
    from jsonpath import selectors as S

    if isinstance(sel, S.PropertySelector):
        return ["name", sel.name]
    if isinstance(sel, S.IndexSelector):
        return ["index", sel.index]
    if isinstance(sel, S.SliceSelector):
        return ["slice", sel.slice.start, sel.slice.stop, sel.slice.step]
    if isinstance(sel, S.WildSelector):
        return ["wild"]
    if isinstance(sel, S.Filter):
        return ["filter", _expr(sel.expression.expression)]
    raise Unsupported


def _expr(e: Any) -> list:
    from jsonpath import filter as F

    if isinstance(e, F.InfixExpression):
        if e.operator == "&&":
            return ["and", _expr(e.left), _expr(e.right)]
        if e.operator == "||":
            return ["or", _expr(e.left), _expr(e.right)]
        if e.operator in ("==", "!=", "<", "<=", ">", ">="):
            return ["cmp", e.operator, _cmpable(e.left), _cmpable(e.right)]
        raise Unsupported
    if isinstance(e, F.PrefixExpression):
        return ["not", _expr(e.right)]
    if isinstance(e, F.SelfPath):
        return ["test", ["rel", _query(e.path)]]
    if isinstance(e, F.RootPath):
        return ["test", ["abs", _query(e.path)]]
    if isinstance(e, F.FunctionExtension) and e.name in ("match", "search"):
        return ["fn", e.name, [_cmpable(a) for a in e.args]]
    raise Unsupported


def _cmpable(e: Any) -> list:
    from jsonpath import filter as F

    if isinstance(e, F.RegexLiteral):
        raise Unsupported
    if isinstance(e, F.Literal):
        return ["lit", e.value]
    if isinstance(e, F.Nil):
        return ["lit", None]
    if isinstance(e, F.SelfPath):
        return ["rel", _query(e.path)]
    if isinstance(e, F.RootPath):
        return ["abs", _query(e.path)]
    if isinstance(e, F.FunctionExtension):
        if e.name == "length":
            return ["fn", "length", [_cmpable(e.args[0])]]
        if e.name in ("count", "value"):
            a = e.args[0]
            if isinstance(a, F.SelfPath):
                return ["fn", e.name, [["rel", _query(a.path)]]]
            if isinstance(a, F.RootPath):
                return ["fn", e.name, [["abs", _query(a.path)]]]
        raise Unsupported
    raise Unsupported
