"""Stubs for C-level objects the symbolic engine cannot see through.

PySlice   a transcription of CPython's PySlice_Unpack / PySlice_AdjustIndices
          (Objects/sliceobject.c) used in place of the C `slice` object on a
          constructed SliceSelector; validated against slice.indices() on every run.
Arr       a pure-Python Sequence (the library accepts any Sequence) whose slicing is
          defined through PySlice, avoiding the engine's faulty reversed-slice list model.
"""
from __future__ import annotations

from collections.abc import Mapping, Sequence
from typing import Any, List, Optional, Tuple


class PySlice:
    __slots__ = ("start", "stop", "step")

    def __init__(self, start: Optional[int], stop: Optional[int], step: Optional[int]) -> None:
        self.start = start
        self.stop = stop
        self.step = step

    def indices(self, length: int) -> Tuple[int, int, int]:
        step = 1 if self.step is None else self.step
        if step == 0:
            raise ValueError("slice step cannot be zero")
        if step < 0:
            lower, upper = -1, length - 1
        else:
            lower, upper = 0, length
        if self.start is None:
            start = upper if step < 0 else lower
        else:
            start = self.start
            if start < 0:
                start += length
                if start < lower:
                    start = lower
            elif start > upper:
                start = upper
        if self.stop is None:
            stop = lower if step < 0 else upper
        else:
            stop = self.stop
            if stop < 0:
                stop += length
                if stop < lower:
                    stop = lower
            elif stop > upper:
                stop = upper
        return (start, stop, step)

    def __eq__(self, other: object) -> bool:
        return isinstance(other, PySlice) and (self.start, self.stop, self.step) == (other.start, other.stop, other.step)

    def __hash__(self) -> int:
        return hash((self.start, self.stop, self.step))


def range_list(start: int, stop: int, step: int) -> List[int]:
    out = []
    i = start
    if step > 0:
        while i < stop:
            out.append(i)
            i += step
    else:
        while i > stop:
            out.append(i)
            i += step
    return out


class Arr(Sequence):
    """A JSON array as a pure-Python Sequence."""

    def __init__(self, items: List[Any]) -> None:
        self.items = items

    def __len__(self) -> int:
        return len(self.items)

    def __getitem__(self, key: Any) -> Any:
        if isinstance(key, PySlice):
            return [self.items[i] for i in range_list(*key.indices(len(self.items)))]
        if isinstance(key, slice):
            return [self.items[i] for i in range(*key.indices(len(self.items)))]
        n = len(self.items)
        if key < 0:
            key += n
        if key < 0 or key >= n:
            raise IndexError("Arr index out of range")
        return self.items[key]

    def __eq__(self, other: object) -> bool:
        if isinstance(other, Arr):
            return self.items == other.items
        if isinstance(other, list):
            return self.items == other
        return NotImplemented

    def __repr__(self) -> str:
        return f"Arr({self.items!r})"


def validate_pyslice() -> Optional[str]:
    """Compare PySlice.indices with the real slice.indices on a complete small grid."""
    vals = [None] + list(range(-8, 9))
    steps = [None] + [s for s in range(-4, 5) if s != 0]
    for n in range(0, 7):
        for a in vals:
            for b in vals:
                for c in steps:
                    if PySlice(a, b, c).indices(n) != slice(a, b, c).indices(n):
                        return f"PySlice({a},{b},{c}).indices({n}) != slice"
                    if Arr(list(range(n)))[PySlice(a, b, c)] != list(range(n))[a:b:c]:
                        return f"Arr slicing differs for {n},{a},{b},{c}"
    for big in (2**53 - 1, -(2**53) + 1, 2**62):
        for n in (0, 1, 5):
            for c in (None, 1, -1, 3, -3):
                for other in (None, 0, 2, -2, big, -big):
                    if PySlice(big, other, c).indices(n) != slice(big, other, c).indices(n):
                        return f"PySlice big start {big},{other},{c},{n}"
                    if PySlice(other, big, c).indices(n) != slice(other, big, c).indices(n):
                        return f"PySlice big stop {other},{big},{c},{n}"
    return None


class Obj(Mapping):
    """A JSON object as a pure-Python Mapping over (name, value) pairs.

    Lookup is a linear scan with ==, so a *symbolic* member name never has to be hashed
    (a real dict realises a symbolic key to one concrete string)."""

    def __init__(self, pairs: List[Tuple[Any, Any]]) -> None:
        self.pairs = list(pairs)

    def __getitem__(self, key: Any) -> Any:
        for k, v in self.pairs:
            if type(k) is type(key) and k == key:
                return v
            if isinstance(k, str) and isinstance(key, str) and k == key:
                return v
        raise KeyError(key)

    def __iter__(self):  # noqa: ANN204
        return iter([k for k, _ in self.pairs])

    def __len__(self) -> int:
        return len(self.pairs)

    def __contains__(self, key: object) -> bool:
        for k, _ in self.pairs:
            if isinstance(k, str) and isinstance(key, str) and k == key:
                return True
        return False

    def __repr__(self) -> str:
        return f"Obj({self.pairs!r})"
