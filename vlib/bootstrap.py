"""Create the overlay virtualenv used by every check (idempotent, offline).

/verif/.venv = venv of /venv/bin/python + a .pth that adds /venv's site-packages
+ crosshair-tool (and its z3-solver) installed from the offline wheelhouse.
"""
import fcntl
import os
import subprocess
import sys

VERIF = os.path.dirname(os.path.dirname(os.path.abspath(__file__)))
VENV = os.path.join(VERIF, ".venv")
BASE_PY = "/venv/bin/python"
WHEELS = "/opt/veriftools/wheels"
XH = os.path.join(VENV, "bin", "crosshair")
PY = os.path.join(VENV, "bin", "python")


def _ok() -> bool:
    if not (os.path.exists(XH) and os.path.exists(PY)):
        return False
    r = subprocess.run(
        [PY, "-c", "import crosshair, z3; print(crosshair.__version__)"],
        capture_output=True,
        text=True,
    )
    return r.returncode == 0


def ensure() -> str:
    """Return the path of the overlay python, building the overlay if needed."""
    if _ok():
        return PY
    os.makedirs(os.path.join(VERIF, ".work"), exist_ok=True)
    with open(os.path.join(VERIF, ".work", "bootstrap.lock"), "w") as lock:
        fcntl.flock(lock, fcntl.LOCK_EX)
        if _ok():
            return PY
        subprocess.run(["rm", "-rf", VENV], check=True)
        subprocess.run([BASE_PY, "-m", "venv", VENV], check=True)
        sp = subprocess.run(
            [PY, "-c", "import sysconfig; print(sysconfig.get_paths()['purelib'])"],
            capture_output=True,
            text=True,
            check=True,
        ).stdout.strip()
        with open(os.path.join(sp, "_overlay.pth"), "w") as fh:
            fh.write(
                "import site; site.addsitedir('/venv/lib/python3.12/site-packages')\n"
            )
        env = dict(os.environ, PIP_NO_INDEX="1")
        subprocess.run(
            [PY, "-m", "pip", "install", "-q", "--no-index", "--find-links", WHEELS,
             "crosshair-tool"],
            check=True,
            env=env,
        )
        if not _ok():
            raise SystemExit("bootstrap: overlay venv unusable")
    return PY


if __name__ == "__main__":
    print(ensure())
    sys.exit(0)
