"""Reference models for RFC 6901 (JSON Pointer), RFC 6902 (JSON Patch) and the Relative JSON Pointer draft.
Written from the specifications; documents are plain dict/list/str/int/bool/None."""
from __future__ import annotations

import copy
from typing import Any, List, Optional, Tuple


class PtrError(Exception):
    pass


class PatchError(Exception):
    pass


class TestFailed(PatchError):
    pass


def enc_token(t: str) -> str:
    return t.replace("~", "~0").replace("/", "~1")


def dec_token(t: str) -> str:
    return t.replace("~1", "/").replace("~0", "~")


def spell(tokens: List[str]) -> str:
    return "".join("/" + enc_token(t) for t in tokens)


def parse(ptr: str) -> List[str]:
    if ptr == "":
        return []
    if not ptr.startswith("/"):
        raise PtrError("must start with /")
    return [dec_token(t) for t in ptr[1:].split("/")]


def is_index(t: str) -> bool:
    """RFC 6901 array-index = %x30 / ( %x31-39 *(%x30-39) )"""
    return t.isascii() and t.isdigit() and (t == "0" or not t.startswith("0"))


def as_index(t: Any) -> Any:
    """The array index a token denotes, or None. Tokens may be given as str (text) or as int (already an index)."""
    if isinstance(t, bool):
        return None
    if isinstance(t, int):
        return t if t >= 0 else None
    if is_index(t):
        return int(t)
    return None


def as_key(t: Any) -> str:
    return t if isinstance(t, str) else str(t)


def step(value: Any, t: Any) -> Any:
    """RFC 6901 section 4: one reference token applied to a value."""
    if isinstance(value, dict):
        k = as_key(t)
        if k in value:
            return value[k]
        raise PtrError("no such member")
    if isinstance(value, list):
        i = as_index(t)
        if i is None:
            raise PtrError("not an array index")  # includes "-"
        if i >= len(value):
            raise PtrError("index out of range")
        return value[i]
    raise PtrError("token applied to a primitive")


def resolve(tokens: List[str], doc: Any) -> Any:
    cur = doc
    for t in tokens:
        cur = step(cur, t)
    return cur


# ------------------------------------------------------------------ RFC 6902
def _parent(doc: Any, tokens: List[str]) -> Tuple[Any, str]:
    try:
        return resolve(tokens[:-1], doc), tokens[-1]
    except PtrError as e:
        raise PatchError(str(e)) from e


def op_add(doc: Any, tokens: List[str], value: Any) -> Any:
    if not tokens:
        return value
    parent, t = _parent(doc, tokens)
    if isinstance(parent, dict):
        parent[as_key(t)] = value
        return doc
    if isinstance(parent, list):
        if isinstance(t, str) and t == "-":
            parent.append(value)
            return doc
        i = as_index(t)
        if i is None or i > len(parent):
            raise PatchError("bad index")
        parent.insert(i, value)
        return doc
    raise PatchError("parent is a primitive")


def op_remove(doc: Any, tokens: List[str]) -> Any:
    if not tokens:
        raise PatchError("cannot remove the root")  # the library's documented behaviour
    parent, t = _parent(doc, tokens)
    if isinstance(parent, dict):
        if as_key(t) not in parent:
            raise PatchError("no such member")
        del parent[as_key(t)]
        return doc
    if isinstance(parent, list):
        i = as_index(t)
        if i is None or i >= len(parent):
            raise PatchError("bad index")
        del parent[i]
        return doc
    raise PatchError("parent is a primitive")


def op_replace(doc: Any, tokens: List[str], value: Any) -> Any:
    if not tokens:
        return value
    parent, t = _parent(doc, tokens)
    if isinstance(parent, dict):
        if as_key(t) not in parent:
            raise PatchError("no such member")
        parent[as_key(t)] = value
        return doc
    if isinstance(parent, list):
        i = as_index(t)
        if i is None or i >= len(parent):
            raise PatchError("bad index")
        parent[i] = value
        return doc
    raise PatchError("parent is a primitive")


def _get(doc: Any, tokens: List[str]) -> Any:
    try:
        return resolve(tokens, doc)
    except PtrError as e:
        raise PatchError(str(e)) from e


def op_move(doc: Any, frm: List[str], to: List[str]) -> Any:
    if len(to) > len(frm) and [as_key(x) for x in to[: len(frm)]] == [as_key(x) for x in frm]:
        raise PatchError("cannot move into own child")
    v = _get(doc, frm)
    if not frm:
        # moving the root onto itself (to == []) is a no-op; anything else was rejected above
        return doc
    doc = op_remove(doc, frm)
    return op_add(doc, to, v)


def op_copy(doc: Any, frm: List[str], to: List[str]) -> Any:
    v = copy.deepcopy(_get(doc, frm))
    return op_add(doc, to, v)


def json_equal(a: Any, b: Any) -> bool:
    if isinstance(a, bool) or isinstance(b, bool):
        return isinstance(a, bool) and isinstance(b, bool) and a == b
    if a is None or b is None:
        return a is None and b is None
    if isinstance(a, (int, float)) and isinstance(b, (int, float)):
        return a == b
    if isinstance(a, str) and isinstance(b, str):
        return a == b
    if isinstance(a, list) and isinstance(b, list):
        if len(a) != len(b):
            return False
        for x, y in zip(a, b):
            if not json_equal(x, y):
                return False
        return True
    if isinstance(a, dict) and isinstance(b, dict):
        if len(a) != len(b):
            return False
        for k in a:
            if k not in b or not json_equal(a[k], b[k]):
                return False
        return True
    return False


def op_test(doc: Any, tokens: List[str], value: Any) -> Any:
    if not json_equal(_get(doc, tokens), value):
        raise TestFailed("test failed")
    return doc


def apply_op(doc: Any, op: dict) -> Any:
    name = op["op"]
    if name == "add":
        return op_add(doc, op["path"], op["value"])
    if name == "remove":
        return op_remove(doc, op["path"])
    if name == "replace":
        return op_replace(doc, op["path"], op["value"])
    if name == "move":
        return op_move(doc, op["from"], op["path"])
    if name == "copy":
        return op_copy(doc, op["from"], op["path"])
    if name == "test":
        return op_test(doc, op["path"], op["value"])
    raise PatchError("unknown op")


def apply(doc: Any, ops: List[dict]) -> Any:
    for op in ops:
        doc = apply_op(doc, op)
    return doc


# ------------------------------------------------------------------ Relative JSON Pointer (draft-hha-relative-json-pointer)
class RelError(Exception):
    pass


def relative_to(base: List[str], steps: int, offset: int, suffix: Any) -> Any:
    """suffix: list of tokens, or "#". Returns the token list of the result, or ("#", tokens) for the key marker."""
    if steps > len(base):
        raise RelError("more steps than tokens")
    cur = list(base[: len(base) - steps]) if steps else list(base)
    if offset:
        if not cur:
            raise RelError("index manipulation at the root")
        last = cur[-1]
        if not is_index(last):
            raise RelError("index manipulation on a non-index")
        n = int(last) + offset
        if n < 0:
            raise RelError("negative index")
        cur[-1] = str(n)
    if suffix == "#":
        if not cur:
            raise RelError("# at the root")
        return ("#", cur)
    return cur + list(suffix)
