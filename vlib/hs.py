"""Support code imported by every harness module (runs under CrossHair *and* natively).

Nothing here imports crosshair: a harness is plain Python, so a counterexample
can be replayed in a clean interpreter.
"""
from __future__ import annotations

import json
import os
from collections.abc import Mapping, Sequence
from typing import Any, List, Optional, Union

P = json.loads(os.environ.get("VERIF_P", "{}") or "{}")
TWIN = os.environ.get("VERIF_TWIN", "0") == "1"
KF = set(x for x in os.environ.get("VERIF_KF", "").split(",") if x)

Leaf = Union[None, bool, int, str]


_LRU_SIDE: dict = {}
_LRU_OWNED: dict = {}


def _library_cache(wrapper: Any) -> bool:
    """Is this lru_cache wrapper part of the `jsonpath` package: it wraps one of its functions, or is bound to a name in one
    of its modules or classes (e.g. `_loads = lru_cache(maxsize=64)(json.loads)`)?"""
    import sys

    k = id(wrapper)
    if k in _LRU_OWNED:
        return _LRU_OWNED[k]
    owned = str(getattr(getattr(wrapper, "__wrapped__", None), "__module__", "")).startswith("jsonpath")
    if not owned:
        for name, mod in list(sys.modules.items()):
            if not name.startswith("jsonpath") or mod is None:
                continue
            for v in list(vars(mod).values()):
                if v is wrapper:
                    owned = True
                elif isinstance(v, type) and getattr(v, "__module__", "") == name:
                    for cv in list(vars(v).values()):
                        if cv is wrapper or getattr(cv, "__func__", None) is wrapper:
                            owned = True
            if owned:
                break
    _LRU_OWNED[k] = owned
    return owned


def _real_lru_cache() -> None:
    """The engine models functools.lru_cache as a cache that always misses (libimpl/functoolslib.py). A memoised function
    in the library under analysis would then never show what it remembers. For wrappers around functions defined in the
    `jsonpath` package that model is replaced by a remembering one (a dict keyed by the arguments; eviction is not
    modelled, native replay decides); every other lru_cache keeps the engine's model."""
    import sys

    core = sys.modules.get("crosshair.core")
    if core is None or os.environ.get("VERIF_KEEP_LRU_MODEL") == "1":
        return
    try:
        from functools import _lru_cache_wrapper

        def call_remembering(self, *a, **kw):  # noqa: ANN001, ANN202
            if not isinstance(self, _lru_cache_wrapper):
                raise TypeError
            fn = self.__wrapped__
            if not _library_cache(self):
                return fn(*a, **kw)
            key = (id(self), a, tuple(sorted(kw.items())))
            if key in _LRU_SIDE:
                return _LRU_SIDE[key]
            res = fn(*a, **kw)
            _LRU_SIDE[key] = res
            return res

        core._PATCH_REGISTRATIONS[_lru_cache_wrapper.__call__] = call_remembering
    except Exception:  # noqa: BLE001
        pass


_real_lru_cache()

WHY: List[str] = []


def why(cond: bool, *msg: object) -> bool:
    """Return *cond*; when it is false natively, remember why (shown by replay)."""
    if not cond and not TWIN:
        try:
            WHY.append(" ".join(repr(m) if not isinstance(m, str) else m for m in msg))
        except BaseException:  # noqa: BLE001 - never disturb the engine
            pass
    return cond


def ok(result: bool) -> bool:
    """Final verdict of a harness function.

    In twin mode every path that reaches the end fails, so CrossHair must return
    a counterexample: the reachability witness that the assertion is not vacuous.
    """
    if TWIN:
        return False
    return bool(result)


def small(*xs: Any) -> bool:
    """Bound symbolic strings (len <= 2); other kinds pass."""
    for x in xs:
        if isinstance(x, str) and len(x) > 2:
            return False
    return True


def kf(name: str) -> bool:
    """True when known finding *name* is listed (its inputs are then excluded)."""
    return name in KF


def param(name: str, default: Any = None) -> Any:
    return P.get(name, default)


def is_container(x: object) -> bool:
    return isinstance(x, (list, dict))


def same_json(a: object, b: object) -> bool:
    """JSON-value equality: type-strict (bool is not a number), deep, order of members irrelevant."""
    if isinstance(a, bool) or isinstance(b, bool):
        return isinstance(a, bool) and isinstance(b, bool) and a == b
    if a is None or b is None:
        return a is None and b is None
    if isinstance(a, str) or isinstance(b, str):
        return isinstance(a, str) and isinstance(b, str) and a == b
    if isinstance(a, (int, float)) and isinstance(b, (int, float)):
        return a == b
    if isinstance(a, (list, tuple)) and isinstance(b, (list, tuple)):
        if len(a) != len(b):
            return False
        for x, y in zip(a, b):
            if not same_json(x, y):
                return False
        return True
    if isinstance(a, dict) and isinstance(b, dict):
        if len(a) != len(b):
            return False
        for k in a:
            if k not in b:
                return False
            if not same_json(a[k], b[k]):
                return False
        return True
    return False


def same_node(got: object, exp: object) -> bool:
    """A matched value is *that* node: identity for containers, strict equality for leaves."""
    if isinstance(exp, (list, dict)):
        return got is exp
    return same_json(got, exp)


def same_nodes(got: List[object], exp: List[object]) -> bool:
    if len(got) != len(exp):
        return False
    for g, e in zip(got, exp):
        if not same_node(g, e):
            return False
    return True


def pick(pool: Sequence[Any], i: int) -> Any:
    """Concretise: choose pool[i] by forking once per pool entry (i symbolic)."""
    for j, v in enumerate(pool):
        if i == j:
            return v
    return pool[0]


def drive(coro: Any) -> Any:
    """Run a coroutine to completion without an event loop (no real suspension points)."""
    try:
        while True:
            coro.send(None)
    except StopIteration as e:
        return e.value


async def alist(ait: Any) -> list:
    return [x async for x in ait]
