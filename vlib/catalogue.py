"""Generators for query skeletons (oracle AST format), shared by several properties."""
from __future__ import annotations

import itertools
import random
from typing import Any, List

SELECTORS = [
    ["name", "a"], ["name", "b"], ["index", 0], ["index", 1], ["index", -1],
    ["slice", 1, None, None], ["slice", None, None, -1], ["slice", 0, 2, None], ["slice", None, -1, 2], ["wild"],
]

PAIRS = [
    [["name", "a"], ["name", "b"]], [["name", "b"], ["name", "a"]], [["name", "a"], ["name", "a"]],
    [["index", 0], ["index", 0]], [["wild"], ["name", "a"]], [["index", -1], ["wild"]],
    [["slice", None, None, -1], ["index", 0]], [["name", "a"], ["index", 1], ["wild"]],
    [["slice", 0, 1, None], ["slice", 0, 2, None]], [["wild"], ["wild"]],
]


def segments() -> List[list]:
    segs = []
    for kind in ("child", "desc"):
        for s in SELECTORS:
            segs.append([kind, [s]])
        for p in PAIRS:
            segs.append([kind, p])
    return segs


def selector_queries(max_segments: int, rng: random.Random, sample2: int, sample3: int) -> List[list]:
    segs = segments()
    out = [[s] for s in segs]
    if max_segments >= 2:
        two = [[a, b] for a in segs for b in segs]
        rng.shuffle(two)
        out.extend(two[:sample2])
    if max_segments >= 3:
        three = []
        for _ in range(sample3):
            three.append([rng.choice(segs), rng.choice(segs), rng.choice(segs)])
        out.extend(three)
    return out


CORE_SELECTOR_QUERIES = [
    ([["child", [["name", "a"]]]], "obj2"),
    ([["child", [["name", "a"], ["name", "b"], ["name", "a"]]]], "obj2"),
    ([["child", [["wild"]]]], "obj2"),
    ([["child", [["wild"], ["name", "b"]]]], "obj2"),
    ([["desc", [["wild"]]]], "nest1"),
    ([["desc", [["name", "a"]]]], "deep"),
    ([["desc", [["name", "a"]]], ["child", [["index", 0], ["wild"]]]], "nest1"),
    ([["child", [["wild"]]], ["desc", [["slice", None, None, -1]]]], "nest3"),
    ([["desc", [["index", -1]]]], "nest3"),
    ([["desc", [["index", 0], ["index", 0]]]], "nest2"),
    ([["child", [["slice", 1, None, None]]], ["child", [["wild"]]]], "nest2"),
    ([["child", [["wild"]]], ["child", [["name", "a"]]]], "nest2"),
    ([["desc", [["wild"]]], ["child", [["name", "a"]]]], "deep"),
    ([["child", [["name", "b"]]], ["desc", [["wild"]]]], "deep"),
    ([["child", [["index", 0], ["index", 1], ["index", -1]]]], "numkeys"),
    ([["desc", [["slice", 0, 2, None]]]], "numkeys"),
    ([["child", [["wild"]]]], "arr"),
    ([["child", [["slice", None, -1, 2], ["index", -1]]]], "arr"),
    ([["desc", [["wild"]]]], "arr"),
    ([["child", [["name", "a"]]], ["child", [["slice", None, None, -1]]]], "nest1"),
]
