"""Generators for query skeletons (oracle AST format), shared by several properties."""
from __future__ import annotations

import itertools
import random
from typing import Any, List

SELECTORS = [
    ["name", "a"], ["name", "b"], ["index", 0], ["index", 1], ["index", -1],
    ["slice", 1, None, None], ["slice", None, None, -1], ["slice", 0, 2, None], ["slice", None, -1, 2], ["wild"],
    ["slice", 0, None, -1], ["slice", None, None, 0],
]

PAIRS = [
    [["name", "a"], ["name", "b"]], [["name", "b"], ["name", "a"]], [["name", "a"], ["name", "a"]],
    [["index", 0], ["index", 0]], [["wild"], ["name", "a"]], [["index", -1], ["wild"]],
    [["slice", None, None, -1], ["index", 0]], [["name", "a"], ["index", 1], ["wild"]],
    [["slice", 0, 1, None], ["slice", 0, 2, None]], [["wild"], ["wild"]],
]


def segments() -> List[list]:
    segs = []
    for kind in ("child", "desc"):
        for s in SELECTORS:
            segs.append([kind, [s]])
        for p in PAIRS:
            segs.append([kind, p])
    return segs


def selector_queries(max_segments: int, rng: random.Random, sample2: int, sample3: int) -> List[list]:
    segs = segments()
    out = [[s] for s in segs]
    if max_segments >= 2:
        two = [[a, b] for a in segs for b in segs]
        rng.shuffle(two)
        out.extend(two[:sample2])
    if max_segments >= 3:
        three = []
        for _ in range(sample3):
            three.append([rng.choice(segs), rng.choice(segs), rng.choice(segs)])
        out.extend(three)
    return out


CORE_SELECTOR_QUERIES = [
    ([["child", [["name", "a"]]]], "obj2"),
    # member-name shorthand of non-ASCII names that are not "word" characters (RFC 9535: name-char includes %x80-D7FF / %xE000-10FFFF)
    ([["child", [["name", "\u20ac"]]], ["desc", [["name", "a\u263a"]]]], "obj2"),
    ([["desc", [["name", "\U0001d11e"]]], ["child", [["name", "\u00d7\u0663"]]]], "deep"),
    ([["child", [["name", "a"], ["name", "b"], ["name", "a"]]]], "obj2"),
    ([["child", [["wild"]]]], "obj2"),
    ([["child", [["wild"], ["name", "b"]]]], "obj2"),
    ([["desc", [["wild"]]]], "nest1"),
    ([["desc", [["name", "a"]]]], "deep"),
    ([["desc", [["name", "a"]]], ["child", [["index", 0], ["wild"]]]], "nest1"),
    ([["child", [["wild"]]], ["desc", [["slice", None, None, -1]]]], "nest3"),
    ([["desc", [["index", -1]]]], "nest3"),
    ([["desc", [["index", 0], ["index", 0]]]], "nest2"),
    ([["child", [["slice", 1, None, None]]], ["child", [["wild"]]]], "nest2"),
    ([["child", [["wild"]]], ["child", [["name", "a"]]]], "nest2"),
    ([["child", [["wild"]]], ["child", [["name", "a"], ["name", "b"]]]], "nest2"),
    ([["desc", [["wild"]]], ["child", [["name", "b"], ["name", "a"]]]], "deep"),
    ([["desc", [["wild"]]], ["child", [["name", "a"]]]], "deep"),
    ([["child", [["name", "b"]]], ["desc", [["wild"]]]], "deep"),
    ([["child", [["index", 0], ["index", 1], ["index", -1]]]], "numkeys"),
    ([["desc", [["slice", 0, 2, None]]]], "numkeys"),
    ([["child", [["wild"]]]], "arr"),
    ([["child", [["slice", None, -1, 2], ["index", -1]]]], "arr"),
    ([["desc", [["wild"]]]], "arr"),
    ([["child", [["name", "a"]]], ["child", [["slice", None, None, -1]]]], "nest1"),
    # duplicates must be kept: overlapping subtrees reached through two descendant segments / a repeated selector
    ([["desc", [["name", "a"]]], ["desc", [["name", "b"]]]], "deep"),
    ([["desc", [["name", "a"]]], ["desc", [["name", "a"]]]], "deep"),
    ([["child", [["wild"], ["name", "a"]]], ["desc", [["name", "b"]]]], "deep"),
    ([["desc", [["wild"]]], ["desc", [["wild"]]]], "nest3"),
    # explicit zero bounds are not omitted bounds
    ([["child", [["slice", 0, None, -1]]]], "arr"),
    ([["child", [["slice", None, 0, -1]]]], "arr"),
    ([["child", [["slice", 0, 0, None]]]], "arr"),
    ([["child", [["slice", 0, None, 0]]]], "arr"),
    ([["desc", [["slice", 0, None, -1], ["index", 0]]]], "nest3"),
]


# ------------------------------------------------------------------ filter expressions
def rel(*names):
    return ["rel", [["child", [["name", n] if isinstance(n, str) else ["index", n]]] for n in names]]


def abs_(*names):
    return ["abs", [["child", [["name", n] if isinstance(n, str) else ["index", n]]] for n in names]]


A = ["test", rel("a")]
B = ["test", rel("b")]
C = ["cmp", "==", rel("a"), ["lit", 1]]
ATOMS = [A, B, C]
CMP_OPS = ["==", "!=", "<", "<=", ">", ">="]
LITERALS = [1, 0, "a", "", True, False, None, 1.5, -1]


def logical_trees(depth: int) -> List[list]:
    cur = list(ATOMS)
    for _ in range(depth):
        nxt = list(cur)
        nxt.extend(["not", t] for t in cur)
        for a in cur:
            for b in cur:
                nxt.append(["and", a, b])
                nxt.append(["or", a, b])
        cur = nxt
    return cur


def sample_logical(rng: random.Random, k: int, depth: int = 3) -> List[list]:
    """Random trees of exactly the given maximum depth over ! && || and the three atoms,
    some with redundant parentheses."""

    def gen(d: int) -> list:
        if d == 0 or rng.random() < 0.2:
            return rng.choice(ATOMS)
        r = rng.random()
        if r < 0.25:
            t = ["not", gen(d - 1)]
        elif r < 0.6:
            t = ["and", gen(d - 1), gen(d - 1)]
        else:
            t = ["or", gen(d - 1), gen(d - 1)]
        if rng.random() < 0.15:
            t = ["paren", t]
        return t

    out, seen = [], set()
    guard = 0
    while len(out) < k and guard < k * 50:
        guard += 1
        t = gen(depth)
        key = repr(t)
        if key not in seen and t[0] not in ("test", "cmp"):
            seen.add(key)
            out.append(t)
    return out


def fq(expr: list, prefix: List[list] = ()) -> list:
    """A query whose last segment is a filter with the given expression."""
    return list(prefix) + [["child", [["filter", expr]]]]


CORE_LOGICAL = [
    ["not", A], ["and", A, B], ["or", A, B], ["not", ["and", A, B]], ["not", ["or", A, C]],
    ["or", A, ["and", B, C]], ["and", ["or", A, B], C], ["and", A, ["or", B, C]], ["or", ["and", A, B], C],
    ["not", ["not", A]], ["and", ["not", A], B], ["not", C], ["or", ["not", C], ["and", A, ["not", B]]],
    ["paren", ["or", A, B]], ["and", ["paren", ["or", A, B]], ["paren", C]],
    ["or", ["or", A, B], C], ["or", A, ["or", B, C]], ["and", ["and", A, B], C], ["and", A, ["and", B, C]],
]

FUNCTION_EXPRS = [
    ["cmp", "==", ["fn", "length", [rel("a")]], ["lit", 2]],
    ["cmp", ">=", ["fn", "length", [rel()]], ["lit", 1]],
    ["cmp", "==", ["fn", "length", [rel("a")]], ["fn", "length", [rel("b")]]],
    ["cmp", "==", ["fn", "count", [["rel", [["child", [["wild"]]]]]]], ["lit", 1]],
    ["cmp", ">", ["fn", "count", [["rel", [["desc", [["name", "a"]]]]]]], ["lit", 1]],
    ["cmp", "==", ["fn", "value", [["rel", [["child", [["wild"]]]]]]], ["lit", 1]],
    ["cmp", "==", ["fn", "value", [["rel", [["desc", [["name", "a"]]]]]]], rel("a")],
    ["cmp", "!=", ["fn", "value", [["rel", [["child", [["wild"]]]]]]], ["fn", "length", [rel("a")]]],
    ["cmp", "<", ["fn", "count", [["abs", [["child", [["wild"]]]]]]], ["fn", "length", [rel("a")]]],
]

REGEX_EXPRS = [
    ["fn", "match", [rel("a"), ["lit", "a.*"]]],
    ["fn", "search", [rel("a"), ["lit", "b"]]],
    ["fn", "match", [rel("a"), ["lit", "[ab]"]]],
    ["not", ["fn", "search", [rel("a"), ["lit", "^a"]]]],
    ["fn", "match", [rel("a"), rel("b")]],
    ["and", ["fn", "search", [rel("a"), ["lit", "a|1"]]], A],
    ["fn", "match", [rel("a"), ["lit", "ab"]]],
    ["fn", "match", [rel("a"), ["lit", ""]]],
    ["fn", "search", [rel("a"), ["lit", "b$"]]],
    ["fn", "match", [rel("a"), ["lit", "a[.]"]]],
    ["fn", "search", [rel("a"), ["lit", "[^.]b"]]],
    ["fn", "match", [rel("a"), ["lit", "[a.]+"]]],
]
