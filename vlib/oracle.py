"""Reference models, written from the specifications (not from /repo).

* RFC 9535 evaluator over a tiny JSON-able AST (segments, selectors, filter expressions)
* renderers from that AST to query text in several spellings
* structural "shape" of a compiled /repo query, for spelling-equivalence checks
* RFC 6901 / RFC 6902 / Relative JSON Pointer reference functions live in oracle_ptr.py

AST
  query  := [seg, ...]
  seg    := ["child", [sel, ...]] | ["desc", [sel, ...]]
  sel    := ["name", str] | ["index", int] | ["slice", a, b, c] | ["wild"] | ["filter", expr]
  expr   := ["or", e, e] | ["and", e, e] | ["not", e] | ["paren", e]
          | ["cmp", op, cmpable, cmpable] | ["test", ["rel"|"abs", query]]
          | ["fn", name, [arg, ...]]                      (match / search as a test)
  cmpable:= ["lit", value] | ["rel", query] | ["abs", query] | ["fn", name, [arg, ...]]
  arg    := cmpable | expr   (count/value take a ["rel"|"abs", query])
"""
from __future__ import annotations

import json
import re
from typing import Any, List, Optional, Tuple

NOTHING = ("<Nothing>",)

Node = Tuple[tuple, Any]  # (location parts, value)


# ---------------------------------------------------------------- evaluation
def children(parts: tuple, v: Any) -> List[Node]:
    if isinstance(v, dict):
        return [(parts + (k,), v[k]) for k in v]
    if isinstance(v, list):
        return [(parts + (i,), v[i]) for i in range(len(v))]
    return []


def descendants(node: Node) -> List[Node]:
    """The node itself, then its descendants in document (pre-) order."""
    out = [node]
    for ch in children(*node):
        out.extend(descendants(ch))
    return out


def slice_indices(n: int, start: Optional[int], end: Optional[int], step: Optional[int]) -> List[int]:
    """RFC 9535 2.3.4.2.2 normative pseudo-code."""
    if step is None:
        step = 1
    if step == 0:
        return []
    if step >= 0:
        d_start, d_end = 0, n
    else:
        d_start, d_end = n - 1, -n - 1
    if start is None:
        start = d_start
    if end is None:
        end = d_end

    def normalize(i: int) -> int:
        return i if i >= 0 else n + i

    n_start, n_end = normalize(start), normalize(end)
    if step >= 0:
        lower = min(max(n_start, 0), n)
        upper = min(max(n_end, 0), n)
    else:
        upper = min(max(n_start, -1), n - 1)
        lower = min(max(n_end, -1), n - 1)
    out = []
    if step > 0:
        i = lower
        while i < upper:
            out.append(i)
            i += step
    else:
        i = upper
        while lower < i:
            out.append(i)
            i += step
    return out


def apply_selector(sel: list, node: Node, root: Any, ctx: Any = None) -> List[Node]:
    parts, v = node
    kind = sel[0]
    if kind == "name":
        if isinstance(v, dict) and sel[1] in v:
            return [(parts + (sel[1],), v[sel[1]])]
        return []
    if kind == "index":
        i = sel[1]
        if isinstance(v, list):
            n = len(v)
            if -n <= i < n:
                j = i if i >= 0 else n + i
                return [(parts + (j,), v[j])]
            return []
        if isinstance(v, dict):  # documented departure: member named str(index)
            k = str(i)
            if k in v:
                return [(parts + (k,), v[k])]
        return []
    if kind == "slice":
        if isinstance(v, list):
            return [(parts + (j,), v[j]) for j in slice_indices(len(v), sel[1], sel[2], sel[3])]
        return []
    if kind == "wild":
        return children(parts, v)
    if kind == "filter":
        out = []
        for ch in children(parts, v):
            if truth(sel[1], ch[1], root, ctx, ch[0][-1]):
                out.append(ch)
        return out
    raise ValueError(kind)


def evaluate(query: list, doc: Any, ctx: Any = None, start: Optional[Node] = None, root: Any = None) -> List[Node]:
    if root is None:
        root = doc
    nodes: List[Node] = [start if start is not None else ((), doc)]
    for seg in query:
        nxt: List[Node] = []
        if seg[0] == "child":
            for nd in nodes:
                for sel in seg[1]:
                    nxt.extend(apply_selector(sel, nd, root, ctx))
        else:
            for nd in nodes:
                for d in descendants(nd):
                    for sel in seg[1]:
                        nxt.extend(apply_selector(sel, d, root, ctx))
        nodes = nxt
    return nodes


def is_num(x: Any) -> bool:
    return isinstance(x, (int, float)) and not isinstance(x, bool)


def json_eq(a: Any, b: Any) -> bool:
    if a is NOTHING or b is NOTHING:
        return a is NOTHING and b is NOTHING
    if isinstance(a, bool) or isinstance(b, bool):
        return isinstance(a, bool) and isinstance(b, bool) and a == b
    if a is None or b is None:
        return a is None and b is None
    if is_num(a) and is_num(b):
        return a == b
    if isinstance(a, str) and isinstance(b, str):
        return a == b
    if isinstance(a, list) and isinstance(b, list):
        if len(a) != len(b):
            return False
        for x, y in zip(a, b):
            if not json_eq(x, y):
                return False
        return True
    if isinstance(a, dict) and isinstance(b, dict):
        if len(a) != len(b):
            return False
        for k in a:
            if k not in b or not json_eq(a[k], b[k]):
                return False
        return True
    return False


def json_lt(a: Any, b: Any) -> bool:
    if is_num(a) and is_num(b):
        return a < b
    if isinstance(a, str) and isinstance(b, str):
        return a < b
    return False


def compare(a: Any, op: str, b: Any) -> bool:
    """RFC 9535 2.3.5.2.2."""
    if op == "==":
        return json_eq(a, b)
    if op == "!=":
        return not json_eq(a, b)
    if op == "<":
        return json_lt(a, b)
    if op == ">":
        return json_lt(b, a)
    if op == "<=":
        return json_lt(a, b) or json_eq(a, b)
    if op == ">=":
        return json_lt(b, a) or json_eq(a, b)
    raise ValueError(op)


def _nodes_of(q: list, cur: Any, root: Any, ctx: Any) -> List[Node]:
    if q[0] == "rel":
        return evaluate(q[1], cur, ctx, root=root)
    return evaluate(q[1], root, ctx, root=root)


def fn_value(name: str, args: list, cur: Any, root: Any, ctx: Any) -> Any:
    """Value-typed functions: length, count, value."""
    if name == "length":
        v = cmp_value(args[0], cur, root, ctx)
        if isinstance(v, str) or isinstance(v, (list, dict)):
            return len(v)
        return NOTHING
    if name == "count":
        return len(_nodes_of(args[0], cur, root, ctx))
    if name == "value":
        ns = _nodes_of(args[0], cur, root, ctx)
        return ns[0][1] if len(ns) == 1 else NOTHING
    raise ValueError(name)


def cmp_value(c: list, cur: Any, root: Any, ctx: Any) -> Any:
    if c[0] == "lit":
        return c[1]
    if c[0] in ("rel", "abs"):
        ns = _nodes_of(c, cur, root, ctx)
        return ns[0][1] if len(ns) == 1 else NOTHING
    if c[0] == "fn":
        return fn_value(c[1], c[2], cur, root, ctx)
    raise ValueError(c[0])


def truth(e: list, cur: Any, root: Any, ctx: Any = None, key: Any = None) -> bool:
    k = e[0]
    if k == "or":
        return truth(e[1], cur, root, ctx, key) or truth(e[2], cur, root, ctx, key)
    if k == "and":
        return truth(e[1], cur, root, ctx, key) and truth(e[2], cur, root, ctx, key)
    if k == "not":
        return not truth(e[1], cur, root, ctx, key)
    if k == "paren":
        return truth(e[1], cur, root, ctx, key)
    if k == "cmp":
        return compare(cmp_value(e[2], cur, root, ctx), e[1], cmp_value(e[3], cur, root, ctx))
    if k == "test":
        return len(_nodes_of(e[1], cur, root, ctx)) > 0
    if k == "fn":
        if e[1] in ("match", "search"):
            s = cmp_value(e[2][0], cur, root, ctx)
            p = cmp_value(e[2][1], cur, root, ctx)
            if not (isinstance(s, str) and isinstance(p, str)):
                return False
            try:
                return bool(re.fullmatch(p, s) if e[1] == "match" else re.search(p, s))
            except re.error:
                return False  # not a regular expression: LogicalFalse
        raise ValueError(e[1])
    raise ValueError(k)


# ---------------------------------------------------------------- rendering
def quote(s: str, q: str = "'") -> str:
    body = json.dumps(s, ensure_ascii=False)[1:-1]
    if q == "'":
        body = body.replace('\\"', '"').replace("'", "\\'")
    return q + body + q


def lit_text(v: Any, q: str = "'") -> str:
    if v is None:
        return "null"
    if v is True:
        return "true"
    if v is False:
        return "false"
    if isinstance(v, str):
        return quote(v, q)
    return repr(v)


SHORTHAND_RE = re.compile("^[A-Za-z_\\u0080-\\ud7ff\\ue000-\\U0010ffff][A-Za-z0-9_\\u0080-\\ud7ff\\ue000-\\U0010ffff]*$")
RESERVED = {"and", "or", "not", "in", "contains", "true", "false", "null", "nil", "none", "undefined", "missing",
            "True", "False", "Null", "Nil", "None"}


def sel_text(sel: list, q: str = "'", sp: str = "") -> str:
    k = sel[0]
    if k == "name":
        return quote(sel[1], q)
    if k == "index":
        return str(sel[1])
    if k == "slice":
        a, b, c = ("" if x is None else str(x) for x in sel[1:4])
        if sel[3] is None:
            return f"{a}{sp}:{sp}{b}"
        return f"{a}{sp}:{sp}{b}{sp}:{sp}{c}"
    if k == "wild":
        return "*"
    if k == "filter":
        return "?" + sp + expr_text(sel[1], q, sp)
    raise ValueError(k)


def query_text(query: list, root: str = "$", q: str = "'", sp: str = "", shorthand: bool = True) -> str:
    out = [root]
    for seg in query:
        sels = seg[1]
        one = sels[0] if len(sels) == 1 else None
        use_short = (
            shorthand and one is not None
            and (one[0] == "wild" or (one[0] == "name" and SHORTHAND_RE.match(one[1]) and one[1] not in RESERVED))
        )
        pre = ".." if seg[0] == "desc" else ""
        if use_short:
            body = "*" if one[0] == "wild" else one[1]
            out.append((".." if seg[0] == "desc" else ".") + body)
        else:
            inner = ("," + sp).join(sel_text(s, q, sp) for s in sels)
            out.append(f"{sp}{pre}[{sp}{inner}{sp}]")
    return "".join(out)


def cmpable_text(c: list, q: str = "'", sp: str = "") -> str:
    if c[0] == "lit":
        return lit_text(c[1], q)
    if c[0] == "rel":
        return query_text(c[1], "@", q, sp)
    if c[0] == "abs":
        return query_text(c[1], "$", q, sp)
    if c[0] == "fn":
        return f"{c[1]}({(',' + sp).join(arg_text(x, q, sp) for x in c[2])})"
    raise ValueError(c[0])


def arg_text(x: list, q: str, sp: str) -> str:
    if x[0] in ("lit", "rel", "abs", "fn"):
        return cmpable_text(x, q, sp)
    return expr_text(x, q, sp)


def expr_text(e: list, q: str = "'", sp: str = "", prec: int = 0) -> str:
    """Minimal parentheses per RFC grammar: || < && < ! ; ["paren", e] forces a redundant pair."""
    k = e[0]
    if k == "or":
        s = f"{expr_text(e[1], q, sp, 1)} || {expr_text(e[2], q, sp, 1)}"
        return f"({s})" if prec > 1 else s
    if k == "and":
        s = f"{expr_text(e[1], q, sp, 2)} && {expr_text(e[2], q, sp, 2)}"
        return f"({s})" if prec > 2 else s
    if k == "not":
        inner = e[1]
        if inner[0] in ("test", "fn"):
            return "!" + sp + expr_text(inner, q, sp, 3)
        return "!" + sp + "(" + expr_text(inner, q, sp, 0) + ")"
    if k == "paren":
        return "(" + sp + expr_text(e[1], q, sp, 0) + sp + ")"
    if k == "cmp":
        return f"{cmpable_text(e[2], q, sp)} {e[1]} {cmpable_text(e[3], q, sp)}"
    if k == "test":
        return cmpable_text(e[1], q, sp)
    if k == "fn":
        return cmpable_text(e, q, sp)
    raise ValueError(k)


# ---------------------------------------------------------------- shape of a compiled /repo query
def shape(path: Any) -> Any:
    """Structure of a compiled jsonpath.JSONPath, ignoring token positions and shorthand-vs-bracket."""
    from jsonpath import selectors as S

    out = []
    for sel in path.selectors:
        out.append(_sel_shape(sel, top=True))
    return ("query", bool(getattr(path, "fake_root", False)), tuple(out))


def _sel_shape(sel: Any, top: bool = False) -> Any:
    from jsonpath import selectors as S

    if isinstance(sel, S.ListSelector):
        return ("list", tuple(_sel_shape(i) for i in sel.items))
    if isinstance(sel, S.RecursiveDescentSelector):
        return ("desc",)
    if isinstance(sel, S.PropertySelector):
        r: Any = ("name", sel.name)
    elif isinstance(sel, S.IndexSelector):
        r = ("index", sel.index)
    elif isinstance(sel, S.SliceSelector):
        r = ("slice", sel.slice.start, sel.slice.stop, sel.slice.step)
    elif isinstance(sel, S.WildSelector):
        r = ("wild",)
    elif isinstance(sel, S.KeysSelector):
        r = ("keys",)
    elif isinstance(sel, S.Filter):
        r = ("filter", expr_shape(sel.expression))
    else:
        r = ("?", type(sel).__name__)
    return ("list", (r,)) if top else r


def expr_shape(e: Any) -> Any:
    from jsonpath import filter as F

    if isinstance(e, F.BooleanExpression):
        return expr_shape(e.expression)
    if isinstance(e, F.InfixExpression):
        return ("infix", e.operator, expr_shape(e.left), expr_shape(e.right))
    if isinstance(e, F.PrefixExpression):
        return ("prefix", e.operator, expr_shape(e.right))
    if isinstance(e, F.RegexLiteral):
        return ("regex", e.value.pattern, int(e.value.flags))
    if isinstance(e, F.Literal):
        return ("lit", type(e.value).__name__, e.value)
    if isinstance(e, F.Nil):
        return ("nil",)
    if isinstance(e, F.Undefined):
        return ("undefined",)
    if isinstance(e, F.ListLiteral):
        return ("listlit", tuple(expr_shape(i) for i in e.items))
    if isinstance(e, F.SelfPath):
        return ("self", shape(e.path))
    if isinstance(e, F.RootPath):
        return ("root", shape(e.path))
    if isinstance(e, F.FilterContextPath):
        return ("ctx", shape(e.path))
    if isinstance(e, F.FunctionExtension):
        return ("fn", e.name, tuple(expr_shape(x) for x in e.args))
    if isinstance(e, F.CurrentKey):
        return ("key",)
    return ("?", type(e).__name__)
