"""Lane X: run CrossHair (symbolic execution + z3) on harness functions.

A *condition* is one harness function (PEP 316 contract in its docstring) plus a
parameter dictionary handed to the harness module through the environment
variable VERIF_P.  Each condition is checked in its own OS process:

    VERIF_P=<json> crosshair check --report_all --per_condition_timeout T file.py:LINE

Verdicts:
  confirmed     "Confirmed over all paths"  (every path closed by the solver)
  refuted       counterexample returned (then replayed natively, see replay.py)
  inconclusive  "Not confirmed" (paths explored, none failing, search not exhausted)
  unreached     "Unable to meet precondition"
  error         anything else (tool crash, timeout of the outer guard)

With twin=True the harness' ok() helper turns every reached end into a failure,
so the expected verdict is `refuted`: the reachability (non-vacuity) witness.
"""
from __future__ import annotations

import json
import os
import re
import subprocess
import time
from concurrent.futures import ThreadPoolExecutor
from dataclasses import dataclass, field
from typing import Any, Dict, List, Optional

from . import bootstrap

VERIF = bootstrap.VERIF
REPO = os.environ.get("VERIF_REPO", "/repo")


@dataclass
class Condition:
    cid: str  # unique id inside the property
    family: str  # family name (twin is run once per family)
    harness: str  # path relative to /verif, e.g. harness/c01.py
    fn: str  # function name in the harness
    params: Dict[str, Any] = field(default_factory=dict)
    timeout: int = 30  # crosshair --per_condition_timeout
    required: bool = True  # must end `confirmed` for the check to count as decided
    note: str = ""
    targets: List[str] = field(default_factory=list)  # real functions exercised
    bounds: str = ""
    kf: List[str] = field(default_factory=list)  # known-finding ids excluded here


@dataclass
class Result:
    cond: Condition
    verdict: str
    wall_s: float
    call: Optional[str] = None  # "fn(args...)" of the counterexample
    message: str = ""
    raw: str = ""
    twin: bool = False


_LINE_RE = re.compile(r"^(?P<file>[^:\n]+):(?P<line>\d+): (?P<kind>info|error): (?P<msg>.*)$")
_CALL_RE = re.compile(r"when calling (?P<call>.*?)(?: \(which (?:returns|raises) .*\))?$", re.S)


def _fn_line(path: str, fn: str) -> int:
    with open(path) as fh:
        for i, line in enumerate(fh, 1):
            if line.startswith(f"def {fn}("):
                return i
    raise KeyError(f"{fn} not in {path}")


def env_for(params: Dict[str, Any], twin: bool = False, kf: Optional[List[str]] = None) -> Dict[str, str]:
    env = dict(os.environ)
    env["PYTHONPATH"] = f"{REPO}:{VERIF}"
    env["VERIF_P"] = json.dumps(params)
    env["VERIF_TWIN"] = "1" if twin else "0"
    env["VERIF_KF"] = ",".join(kf or [])
    env["PYTHONHASHSEED"] = "0"
    env.pop("PYTHONSTARTUP", None)
    return env


def run_one(cond: Condition, twin: bool = False) -> Result:
    path = os.path.join(VERIF, cond.harness)
    line = _fn_line(path, cond.fn)
    t = 15 if twin else cond.timeout
    cmd = [
        bootstrap.XH,
        "check",
        "--report_all",
        "--per_condition_timeout",
        str(t),
        f"{path}:{line + 1}",
    ]
    t0 = time.time()
    try:
        p = subprocess.run(
            cmd,
            capture_output=True,
            text=True,
            env=env_for(cond.params, twin, cond.kf),
            cwd=VERIF,
            timeout=t * 2 + 60,
        )
        out = p.stdout + p.stderr
    except subprocess.TimeoutExpired as e:
        return Result(cond, "error", time.time() - t0, message="outer timeout", raw=str(e), twin=twin)
    wall = time.time() - t0
    verdict, call, msg = "error", None, out.strip()[-400:]
    # A message may span several lines (exception text); join continuation lines.
    entries: List[Dict[str, str]] = []
    for ln in out.splitlines():
        m = _LINE_RE.match(ln)
        if m:
            entries.append(dict(m.groupdict()))
        elif entries:
            entries[-1]["msg"] += "\n" + ln
    for e in entries:
        m_ = e["msg"]
        if e["kind"] == "info":
            if m_.startswith("Confirmed over all paths"):
                verdict, msg = "confirmed", m_
            elif m_.startswith("Not confirmed"):
                verdict, msg = "inconclusive", m_
            elif m_.startswith("Unable to meet precondition"):
                verdict, msg = "unreached", m_
        else:
            cm = _CALL_RE.search(m_)
            if cm:
                verdict, call, msg = "refuted", cm.group("call").strip(), m_
            else:
                verdict, msg = "error", m_
        break
    return Result(cond, verdict, wall, call=call, message=msg, raw=out[-2000:], twin=twin)


def run_all(conds: List[Condition], jobs: int = 16, twins: bool = True) -> List[Result]:
    """Run every condition, plus one reachability twin per family."""
    work: List[tuple] = []
    seen = set()
    for c in conds:
        if twins and c.family not in seen:
            seen.add(c.family)
            work.append((c, True))
    for c in conds:
        work.append((c, False))
    # longest first for better packing
    work.sort(key=lambda w: -(15 if w[1] else w[0].timeout))
    with ThreadPoolExecutor(max_workers=jobs) as ex:
        return list(ex.map(lambda w: run_one(w[0], w[1]), work))
