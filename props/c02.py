"""C02: RFC 9535 filter expressions select exactly the nodes the RFC makes true."""
from __future__ import annotations

import random
from typing import List

from vlib import catalogue as cat
from vlib import oracle
from vlib.driver import Plan
from vlib.xh import Condition

H = "harness/c02.py"
KINDS_Q = ["nothing", "null", "bool", "int", "float", "str", "array", "object"]


def _fcond(name, expr, fn, T, params=None, prefix=(), family=None, required=False):
    q = cat.fq(expr, prefix)
    p = {"query": q}
    p.update(params or {})
    return Condition(f"{name}:{oracle.query_text(q)}", family or name, H, fn, p, T, required=required,
                     bounds=f"{fn}: symbolic leaves (None/bool/int/str unless stated), member presence, array length<=2")


def plan(tier: str, seed: int) -> Plan:
    thorough = tier == "thorough"
    rng = random.Random(seed)
    T = 180 if thorough else 45
    conds: List[Condition] = []
    # 1. comparison table, direct: one condition per ordered pair of operand kinds, all six operators inside
    kinds = list(KINDS_Q)
    for ka in kinds:
        for kb in kinds:
            a, b = ka, kb
            params = {}
            if ka == "str" and kb == "str":
                a = b = "pstr"  # string *ordering* only on pooled strings (engine's symbolic str< is unreliable)
            if (ka, kb) in (("int", "float"), ("float", "int")):
                a, b = a.replace("int", "pint"), b.replace("int", "pint")  # symbolic int vs float is undecidable for the engine
            if ka in ("array", "object") and kb in ("array", "object"):
                for oi, o in enumerate(cat.CMP_OPS):
                    conds.append(Condition(f"cmp:{ka}:{kb}:{o}", "compare", H, "compare_direct",
                                           {"ka": ka, "kb": kb, "maxc": 2, "oplo": oi, "ophi": oi}, T,
                                           bounds=f"operator {o}; containers of <=2 elements, first of any primitive kind, second int"))
                    if ka == kb:
                        conds.append(Condition(f"cmp:{ka}:{kb}:bi:{o}", "compare", H, "compare_direct",
                                               {"ka": ka + "_bi", "kb": kb + "_bi", "maxc": 2, "oplo": oi, "ophi": oi}, T,
                                               bounds=f"operator {o}; containers of <=2 bool|int elements (the look-alike kinds)"))
                continue
            conds.append(Condition(f"cmp:{ka}:{kb}", "compare", H, "compare_direct", dict(params, ka=a, kb=b), T,
                                   bounds="all six operators; arrays/objects of <=2 leaves (<=1 when both are the same container kind); str len<=2; floats from a pool of 5"))
    if thorough:
        for ka, kb in [("array2", "array2"), ("array2", "array"), ("object2", "object2"), ("array", "array2"),
                       ("object2", "object"), ("array2", "object2")]:
            conds.append(Condition(f"cmp:{ka}:{kb}", "compare", H, "compare_direct", {"ka": ka, "kb": kb, "maxc": 2}, T * 2,
                                   required=False, bounds="second nesting level"))
    # 2. comparison table through the pipeline
    for op in cat.CMP_OPS:
        eq = op in ("==", "!=")
        conds.append(_fcond("pipe-qq", ["cmp", op, cat.rel("a"), cat.rel("b")], "filt_pair", T,
                            params={"leaf": "leaf" if eq else "nbi"}, required=True))
        conds.append(_fcond("pipe-qq-str", ["cmp", op, cat.rel("a"), cat.rel("b")], "filt_pstr", T))
    lits = cat.LITERALS if thorough else [1, "a", True, None]
    for op in (cat.CMP_OPS if thorough else ["==", "<", ">="]):
        for lit in lits:
            lk = "leaf" if op in ("==", "!=") else "nbi"
            conds.append(_fcond("pipe-ql", ["cmp", op, cat.rel("a"), ["lit", lit]], "filt_pair", T, params={"leaf": lk}))
            conds.append(_fcond("pipe-lq", ["cmp", op, ["lit", lit], cat.rel("a")], "filt_pair", T, params={"leaf": lk}))
            if isinstance(lit, str):
                conds.append(_fcond("pipe-ql-str", ["cmp", op, cat.rel("a"), ["lit", lit]], "filt_pstr", T))
                conds.append(_fcond("pipe-lq-str", ["cmp", op, ["lit", lit], cat.rel("a")], "filt_pstr", T))
    conds.append(_fcond("pipe-abs", ["cmp", "==", cat.rel("a"), cat.abs_(1, "a")], "filt_pair", T, params={"leaf": "nbi", "leaf2": "nbi"}))
    conds.append(_fcond("pipe-abs", ["cmp", "<", cat.abs_(1, "a"), cat.rel("b")], "filt_pair", T, params={"leaf": "nbi", "leaf2": "nbi"}))
    # 3. existence, not truthiness
    ex = [["test", cat.rel("a")], ["not", ["test", cat.rel("a")]], ["test", ["rel", [["child", [["wild"]]]]]],
          ["test", cat.abs_(1, "a")], ["test", cat.abs_(0, "b")], ["test", ["rel", [["desc", [["name", "a"]]]]]],
          ["test", ["rel", [["child", [["index", 0]]]]]]]
    for e in ex:
        conds.append(_fcond("exist", e, "filt_pair", T, params={"leaf": "leaf"}, required=True))
    for e in [["test", ["rel", []]], ["not", ["test", ["rel", []]]], ["cmp", "==", ["rel", []], ["rel", []]],
              ["cmp", "==", ["rel", []], cat.abs_("k")], ["cmp", "<", ["rel", []], ["lit", 1]],
              ["cmp", ">=", ["fn", "length", [["rel", []]]], ["lit", 1]], ["test", cat.rel("a")]]:
        conds.append(_fcond("prims", e, "filt_prims", T, prefix=[["child", [["name", "xs"]]]], required=True))
    # 4. logical structure
    trees = list(cat.CORE_LOGICAL)
    trees += cat.sample_logical(rng, 400 if thorough else 8, 3)
    seen = set()
    for t in trees:
        k = repr(t)
        if k in seen:
            continue
        seen.add(k)
        conds.append(_fcond("logic", t, "filt_pair", T, params={"leaf": "int"}))
    # 5. functions
    for e in cat.FUNCTION_EXPRS:
        conds.append(_fcond("func", e, "filt_pair", T, params={"leaf": "leaf"}))
        if thorough:
            conds.append(_fcond("func-spine", e, "filt", T, params={"spine": "nest2", "leaf": "intstr"}))
    for e in cat.REGEX_EXPRS:
        conds.append(_fcond("regex", e, "filt_pstr", T))
    # 6. nesting: $ and @ inside an inner filter
    inner = ["test", ["rel", [["child", [["name", "xs"]]], ["child", [["filter", ["cmp", "==", cat.rel("a"), cat.abs_("k")]]]]]]]
    conds.append(_fcond("nest", inner, "filt_nested", T * 2, params={"leaf": "optint"}, prefix=[["child", [["name", "items"]]]], required=True))
    inner2 = ["test", ["rel", [["child", [["name", "xs"]]], ["child", [["filter", ["and", ["test", cat.rel("a")], ["cmp", "!=", cat.rel("a"), cat.abs_("k")]]]]]]]]
    conds.append(_fcond("nest", inner2, "filt_nested", T * 2, params={"leaf": "boolint"}, prefix=[["child", [["name", "items"]]]]))
    # ... and through the async entry point (the async twins of embedded queries re-root separately)
    for k, (nm, e, fn, prm, pre) in enumerate([
            ("nest", inner, "filt_nested", {"leaf": "optint"}, [["child", [["name", "items"]]]]),
            ("nest", inner2, "filt_nested", {"leaf": "boolint"}, [["child", [["name", "items"]]]]),
            ("exist", ["test", cat.rel("a")], "filt", {"spine": "objarr", "leaf": "nbi"}, ()),
            ("cmp", ["cmp", "==", cat.rel("a"), cat.abs_("k")], "filt_prims", {}, [["child", [["name", "xs"]]]]),
            ("func", cat.FUNCTION_EXPRS[0], "filt", {"spine": "objarr", "leaf": "intstr"}, ())]):
        c = _fcond(nm + "-async", e, fn, T * 2, params=dict(prm, route="async"), prefix=pre)
        conds.append(c)
    # filters on spines (objects filtered too, filter after descendant)
    for e, spine in [(["test", cat.rel("a")], "deep"), (["cmp", "==", cat.rel("a"), ["lit", 1]], "nest2"),
                     (["cmp", "<", cat.rel("a"), cat.rel("b")], "objarr"), (["not", ["test", cat.rel("b")]], "objarr")]:
        conds.append(_fcond("spine", e, "filt", T, params={"spine": spine, "leaf": "boolint"}))
        conds.append(_fcond("spine-desc", e, "filt", T, params={"spine": spine, "leaf": "int"}, prefix=[["desc", [["wild"]]]]))
    return Plan(
        conditions=conds,
        selfchecks=[oracle_selfcheck],
        explanation=(
            "JSONPathEnvironment.compare/_eq/_lt/is_truthy are executed symbolically on every ordered pair of operand kinds "
            "(Nothing in both run-time spellings, null, bool, int, float pool, str, arrays and objects of symbolic leaves) for "
            "all six operators against the RFC 9535 2.3.5.2.2 table; Filter.resolve, Boolean/Infix/PrefixExpression, SelfPath, "
            "RootPath, FunctionExtension.evaluate and the five standard functions are executed on documents whose leaves, member "
            "presence and array lengths are symbolic, for a generated catalogue of filter expressions (comparison forms, existence "
            "tests, logical trees of depth <= 3 with minimal and redundant parentheses, function calls, nested filters) compiled by "
            "the live Pratt parser; expected results come from an independent RFC evaluator."),
        assumptions=["string ordering is exercised on a pool of 7 strings (CrossHair's symbolic str< model is unreliable)",
                     "floats come from a pool of 5 values; regular-expression subjects come from a pool of strings"],
        outside=["expression depth > 3", "symbolic floats", "regular-expression semantics beyond 6 fixed patterns",
                 "containers nested more than two levels inside comparison operands"],
    )


def oracle_selfcheck():
    try:
        from tests.test_ietf import TEST_CASES
        from tests import test_ietf_comparison as tic
    except Exception:  # noqa: BLE001
        return None
    import jsonpath
    from jsonpath.filter import UNDEFINED
    from jsonpath.match import NodeList

    from vlib.shape2ast import ast_of

    n = 0
    for case in TEST_CASES:
        try:
            ast = ast_of(jsonpath.compile(case.path))
        except Exception:  # noqa: BLE001
            continue
        if ast is None or "?" not in case.path:
            continue
        got = [v for _, v in oracle.evaluate(ast, case.data)]
        if got != case.want:
            return f"oracle disagrees with pinned test {case.description!r}: {got!r} != {case.want!r}"
        n += 1
    m = 0
    for case in tic.TEST_CASES:
        def conv(x):
            if x is UNDEFINED or (isinstance(x, NodeList) and len(x) == 0):
                return oracle.NOTHING
            return x
        if case.op not in cat.CMP_OPS:
            continue
        l, r = conv(case.left), conv(case.right)
        if isinstance(l, NodeList) or isinstance(r, NodeList):
            continue
        if oracle.compare(l, case.op, r) != case.want:
            return f"oracle comparison disagrees with pinned case {case.description!r}"
        m += 1
    if n < 10 or m < 20:
        return f"oracle self-check covered too few pinned cases ({n}, {m})"
    return None
