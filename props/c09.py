"""C09: evaluation is pure: read-only, repeatable, unaffected by caching or interleaving."""
from __future__ import annotations

import random
from typing import List

from vlib.driver import Plan
from vlib.xh import Condition

H = "harness/c09.py"
QUERIES = [
    "$.xs[?@.a == $.k]",
    "$.xs[?@.a == _.k]",
    "$.xs[?$.k == 1]",
    "$.xs[?_.k == $.k]",
    "$.xs[?# > 0 && @.a == $.k]",
    "$.xs[?count($.xs[?@.a == 1]) > 1 && # > 0]",
    "$.xs[?@.a == $.k || count($.xs[?@.a == 1]) > 1 && # > 0]",
    "$.xs[?length($.xs) > #]",
    "$.xs[?@.b == $.xs[0].a]",
    "$.xs[?value($.xs[?@.b].a) == @.a]",
    "$.xs[?count(@.*) == length(_.xs)]",
    "$..[?@.a == $.k]",
    "$.xs[?$.xs[?@.a == $.k]]",
    "$.xs[?!$.zz && @.a != _.zz]",
    "$.xs[?@[?@ == $.k]]",
    "$.xs[?# == $.k || # == _.k]",
    "$.xs[?@.a in [1, 2] || $.k in _.xs]",
    "$[?@[?@.a == $.k]]",
    "$.xs[?@.a == 1 && ($.k == 1 || $.k == true)]",
    "$.xs[?@.a != 0 && ($.k in [0] || $.k in [false])]",
    "$.xs[?($.k == 0 || $.k == false) && # >= 0]",
    "$.xs[?@.a == $.k || $.k == null || $.k == 0]",
]


def plan(tier: str, seed: int) -> Plan:
    thorough = tier == "thorough"
    T = 200 if thorough else 50
    conds: List[Condition] = []
    for q in QUERIES:
        conds.append(Condition(f"cache:{q}", "cache", H, "cache_eq", {"qtext": q, "kleaf": "nbi" if ("true" in q or "false" in q or "null" in q) else "oi"}, T,
                               bounds="document {k, xs:[<=3 candidate objects], a} with 4 Optional[int] leaves; filter context with an Optional[int]"))
    hq = QUERIES if thorough else QUERIES[:3] + QUERIES[5:7] + QUERIES[11:13]
    for q in hq:
        conds.append(Condition(f"history:{q}", "history", H, "history", {"qtext": q, "maxn": 2 if thorough else 1}, T * 2, required=False,
                               bounds="documents d1, d2, d1 (independent, 3 Optional[int] leaves each, <=2 candidates) through one compiled query"))
    iq = QUERIES if thorough else [QUERIES[0], QUERIES[5], QUERIES[11]]
    for q in iq:
        for k, sfix in ([(2, None)] + [(4, [x, y]) for x in (True, False) for y in (True, False)] + ([(6, None)] if thorough else [])):
            conds.append(Condition(f"interleave{k}:{q}" + (f":first={int(sfix[0])}{int(sfix[1])}" if sfix else ""), "interleave", H, "interleave",
                                   {"qtext": q, "sched": k, "sfix": sfix, "maxn": 2 if thorough else (0 if k == 4 and ".." in q else 1)}, T * 2, required=False,
                                   bounds=f"two lazy iterators of one compiled query, {k} symbolic scheduling choices, then drained"))
    plain = ["$..a", "$..*", "$..[?@.a == $.k]", "$.xs[?@.a == $.k]", "$..xs[?count($.xs[?@.a == 1]) > 1 && # > 0]", "$..[?@.a == $.k].a"]
    for q in (plain if thorough else plain[:2]):
        conds.append(Condition(f"interleave4:{q}", "interleave", H, "interleave", {"qtext": q, "sched": 4, "maxn": 1}, T * 2, required=False,
                               bounds="two lazy iterators of one compiled query, 4 symbolic scheduling choices, then drained"))
    for q in (plain if thorough else plain[:3] + plain[4:5]):
      for take in ([None] if "?" not in q else [-1, 1, 2, 3]):
        conds.append(Condition(f"partial:{q}:take={take}", "partial", H, "partial", {"qtext": q, "maxn": 1 if take is None else 0, "take": take}, T * 2, required=False,
                               bounds="match(), or an iterator advanced 0..4 times and abandoned, then full evaluations of the same compiled "
                                      "query on another and on the same document"))
    for q in [QUERIES[0], QUERIES[1], QUERIES[3], QUERIES[12], QUERIES[15], "$.xs[?count($.xs[?@.a == _.k]) > 0]"] + (QUERIES[4:11] if thorough else []):
        for route in ("sync", "async"):
            conds.append(Condition(f"same-doc:{route}:{q}", "same-doc", H, "same_doc", {"qtext": q, "route": route, "maxn": 0 if ("#" in q or "count" in q) else 1}, T * 2, required=False,
                                   bounds="one compiled query on one document object under two filter contexts and after an in-place edit; "
                                          f"{route} entry point; 4 Optional[int] leaves/context values"))
    for q in ["$.xs[?@.a == $.k]", "$..[?@.a == $.k]", "$.xs", "$.xs[?count($.xs[?@.a == 1]) > 1 && # > 0]"]:
        conds.append(Condition(f"text-reuse:{q}", "text", H, "text_reuse", {"qtext": q}, T * 2, required=False,
                               bounds="document given as JSON text (leaves from a pool of 3: json.dumps concretises), results edited by the caller, then "
                                      "the same text evaluated again by the same or another compiled query"))
    return Plan(
        conditions=conds,
        explanation=(
            "BooleanExpression.cache_tree/cacheable_nodes, CachingFilterExpression, Filter.resolve and JSONPath.finditer are executed "
            "symbolically in two environments (filter caching on and off) on one symbolic document and filter context: results must be "
            "identical, identical again on reuse and for a fresh compile, and the document/context must be deep-equal to copies taken "
            "before. A compiled query is also driven through the history d1,d2,d1 and through two lazy iterators advanced under a "
            "symbolic schedule. Queries mix cacheable sub-expressions (root/context-rooted queries, functions of them) with per-node "
            "ones (@, #)."),
        assumptions=["leaves are Optional[int]: purity does not depend on the leaf kind"],
        outside=["OS threads (the engine is single-threaded)", "more than two iterators", "history longer than three uses"],
    )
