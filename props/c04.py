"""C04: JSON Pointer resolution conforms to RFC 6901 for every document and pointer."""
from __future__ import annotations

from typing import List

from vlib.driver import Plan
from vlib.xh import Condition

H = "harness/c04.py"


def plan(tier: str, seed: int) -> Plan:
    thorough = tier == "thorough"
    T = 200 if thorough else 60
    conds: List[Condition] = []
    for ms in ([1, 2, 3] if thorough else [1, 2]):
        conds.append(Condition(f"reach-text:len{ms}", "reach", H, "reach_text", {"maxs": ms}, T * 2, required=(ms == 1),
                               bounds=f"member name: symbolic str len<={ms}; 4 document shapes; symbolic leaf; escape decoding off"))
    sg = 22 if thorough else 13
    for ue in (False, True):
        conds.append(Condition(f"reach-sigma:ue={ue}", "reach", H, "reach_sigma", {"maxs": 3 if thorough else 2, "unicode_escape": ue, "sigma": sg}, T * 2,
                               bounds=f"member names of <={3 if thorough else 2} characters over the first {sg} of Sigma (enumeration), 4 shapes"))
        for target in (0, 1, 2):
            conds.append(Condition(f"errors-sigma:ue={ue}:target={target}", "errors", H, "errors_sigma",
                                   {"maxs": 3 if thorough else 2, "unicode_escape": ue, "sigma": sg, "target": target}, T * 2, required=False,
                                   bounds="last token over Sigma applied to an array of length<=3 / a primitive of 5 kinds / an object"))
    for ms in ([1, 2, 3] if thorough else [1, 2]):
        conds.append(Condition(f"errors-text:len{ms}", "errors", H, "errors_text", {"maxs": ms}, T * 2, required=False,
                               bounds=f"last token: symbolic str len<={ms} (documented extensions excluded), array length<=3, symbolic primitive"))
    conds.append(Condition("options-history", "history", H, "options_history", {}, T, required=False,
                           bounds="10 pointer texts with backslash / percent escapes; one earlier parse of the same text under symbolic options, then "
                                  "the decoding-off parse (symbolic uri_decode) must read the text per RFC 6901; symbolic leaf"))
    conds.append(Condition("limit-tokens", "errors", H, "limit_tokens", {}, T, required=False,
                           bounds="6 digit tokens up to and including 2**53 - 1 as member names and as indices of an array of length<=2; symbolic leaf"))
    for form, fname in enumerate(["text", "text-file", "binary-file"]):
        conds.append(Condition(f"forms:{fname}", "forms", H, "forms", {"form": form}, T * 2, required=False,
                               bounds=f"the document as {fname}: 3 documents x 6 pointers x 4 leading blank strings x {{compact, indented}} "
                                      "(solver-driven enumeration: json is a C boundary)"))
    conds.append(Condition("index-render", "errors", H, "index_render", {}, T, bounds="index 0..12 rendered as decimal text, array length<=4"))
    return Plan(
        conditions=conds,
        explanation=(
            "JSONPointer.__init__/_parse/_index/_getitem/resolve/exists and pointer.resolve are executed symbolically: a member name "
            "(symbolic string, escape decoding off; Sigma enumeration with decoding on and off) is placed in four document shapes and "
            "the RFC 6901 spelling of its location must resolve to that very node; a last token applied to an array, a primitive or "
            "an object must resolve exactly when RFC 6901 section 4 can evaluate it, otherwise raise a JSONPointerResolutionError, "
            "return the caller's default, and exists() must agree."),
        assumptions=["with escape decoding on the codec is a C boundary: tokens come from Sigma (enumeration)",
                     "documented extensions are excluded by precondition in the error conditions: tokens starting with '-', '#', '~' (longer than one character) or a blank"],
        outside=["tokens longer than 3", "documents deeper than 3", "integers beyond the index limit"],
    )
