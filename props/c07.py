"""C07: compile-time gate - valid RFC queries accepted, ill-typed or out-of-range refused."""
from __future__ import annotations

from typing import Any, Dict, List

from vlib.driver import Obligation, Plan
from vlib.xh import Condition

H = "harness/c07.py"

MUST_REJECT = ["$[]", "$[1,]", "$[,1]", "$['a',]", "$[*,]", "$[?1]", "$[?'a']", "$[?true]", "$[?null]", "$[?@.a && 1]", "$[?1 || @.a]",
               "$[01]", "$[-0]", "$[-01]", "$[00]", "$[0,01]", "$..[01]", "$[9007199254740992]", "$[-9007199254740992]",
               "$[9007199254740992:]", "$[:-9007199254740992]", "$[::9007199254740992]", "$[1:2:3:4]", "$[", "$[1", "$[?@.a",
               "$[?(@.a]", "$[?@.a)]", "$.a |", "$[?!1]", "$[?!'a']"]
MUST_ACCEPT = ["$", "$.a", "$[0]", "$[-1]", "$[9007199254740991]", "$[-9007199254740991]", "$[:]", "$[::]", "$[1:2]", "$[1:2:3]",
               "$[ 1 : 2 : 3 ]", "$[::-1]", "$[9007199254740991:-9007199254740991:9007199254740991]", "$['a','b']", "$[\"a\"]", "$[*]",
               "$..*", "$..[0]", "$..a", "$.a.b", "$ .a", "$\n[ 'a' , 0 ]", "$[?@.a]", "$[?@.a == 1]", "$[?@.a==1]", "$[?(@.a)]",
               "$[?@.a > 1.5e3 && !@.b || @.c <= -2]", "$[? @.a]", "$[?length(@.a) == 2]", "$[?count(@.*) == 2]", "$[?match(@.a, 'a.*')]",
               "$[?search(@.a, 'a')]", "$[?value(@..a) == 1]", "$[?@.a == 'x' || @.b == \"y\"]", "$[?@ == null]", "$[?@ == true]",
               "$.a[?@.b == $.c]", "$[?@[0] == 1]", "$[?@['a'] == 1]", "$[?@.a == -0]", "$[?@.a == 0.0]", "$[?@.a == 1e2]", "$.é", "$._a1"]


def det(text: str, accept: bool) -> Obligation:
    def run() -> Dict[str, Any]:
        import jsonpath

        fn = "accepts" if accept else "rejects"
        rep = {"harness": H, "fn": fn, "params": {}, "call": f"{fn}({text!r})"}
        try:
            jsonpath.JSONPathEnvironment().compile(text)
            ok = accept
            what = "compiled"
        except jsonpath.JSONPathError as e:
            ok = not accept
            what = f"rejected with {type(e).__name__}"
        except Exception as e:  # noqa: BLE001
            ok = False
            what = f"raised {type(e).__name__}: {e}"
        if ok:
            return {"status": "discharged", "detail": f"{text!r} {what}"}
        return {"status": "violated", "detail": f"{text!r} {what}", "replay": rep}

    return Obligation(f"{'accept' if accept else 'reject'}:{text}", run, kind="deterministic-compile")


def plan(tier: str, seed: int) -> Plan:
    thorough = tier == "thorough"
    T = 300 if thorough else 90
    conds: List[Condition] = [
        Condition("index-gate", "gate", H, "index_gate", {"bound": 10**18}, T,
                  bounds="index and both environment limits symbolic in [-10**18, 10**18] (the constructor renders str(index)), min<=0<=max"),
        Condition("slice-gate", "gate", H, "slice_gate", {}, T * 2,
                  bounds="start/stop/step (or omitted) and both limits symbolic, unbounded integers, min<=0<=max"),
        *[Condition(f"typing-positions:{lo}-{hi}", "typing", H, "typing_positions",
                    {"tpl_lo": lo, "tpl_hi": hi, "fillers": 4 if thorough else 2}, T * 2,
                    bounds="33 atom kinds x logical templates %d-%d of 15 (every test position: bare, under !, in parentheses, either side "
                           "of && and ||, nested) with well-typed fillers; solver-driven enumeration of a finite program space, "
                           "text concretised" % (lo, hi))
          for lo, hi in [(0, 3), (4, 6), (7, 9), (10, 11), (12, 13), (14, 14)]],
        Condition("typing-args", "typing", H, "typing_args", {}, T * 2,
                  bounds="11 argument kinds x every parameter position of 7 call templates over the five standard functions; enumeration"),
    ]
    for f in range(7):
        conds.append(Condition(f"typing-history:{f}", "typing", H, "typing_history", {"flo": f, "fhi": f}, T * 2, required=False,
                               bounds="one call template: a first compilation with one of 3 argument kinds, then one argument of each of 6 kinds at every "
                                      "parameter position, on one fresh environment (state carried between compilations)"))
    obls = [det(t, False) for t in MUST_REJECT] + [det(t, True) for t in MUST_ACCEPT]
    from props import lane_r

    obls.extend(lane_r.c07_obligations())
    return Plan(
        conditions=conds,
        obligations=obls,
        explanation=(
            "Range gate: IndexSelector.__init__ and SliceSelector._check_range are executed with the index/bounds AND the "
            "environment's min/max limits symbolic: constructed iff inside the limits, else JSONPathIndexError (slice: all integers). "
            "Lexical gate (lane R, z3 on the live lexer rules, strings of any length): RFC int / number / member-name-shorthand / "
            "slice-selector / blank space are inside the corresponding rule's language and not pre-empted by an earlier rule; the "
            "tokens the index branch accepts are RFC ints. Typing rules: a finite program space (atom kinds x logical templates x "
            "positions; argument kinds x parameter positions) is enumerated through the solver's path search, each program rendered "
            "to text, compiled by the real compiler, and compared with an independent classification by the RFC 9535 2.4.3 rules."),
        assumptions=["typing conditions concretise the program text (the lexer is a C regex): enumeration driven by the solver, complete over the stated finite space"],
        outside=["expression trees beyond the 15 templates / depth 3", "custom function extensions", "well_typed=False environments"],
    )
