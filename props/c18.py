"""C18: the command-line tool is a faithful front end to the library (partial: the operating system is stubbed)."""
from __future__ import annotations

from typing import List

from vlib.driver import Plan
from vlib.xh import Condition

H = "harness/c18.py"


def plan(tier: str, seed: int) -> Plan:
    thorough = tier == "thorough"
    T = 500 if thorough else 220
    conds: List[Condition] = []
    for fn, n, plumb in (("path_cmd", 18, [0, 7]), ("pointer_cmd", 13, [1, 6]), ("patch_cmd", 13, [0, 2])):
        step = 3 if fn == "path_cmd" else 4
        for lo in range(0, n, step):
            conds.append(Condition(f"{fn}:semantics:{lo}-{lo + step - 1}", "cli", H, fn, {"mode": "semantics", "lo": lo, "hi": lo + step - 1, "ndocs": 7 if thorough else 5}, T,
                                   required=False,
                                   bounds=f"expressions {lo}..{lo + step - 1} of the {n}-entry pool x 5 (thorough 7) documents (object, array with non-finite numbers, truncated, not UTF-8, UTF-8 with a byte-order mark, string, empty) x "
                                          "{no-unicode-escape, debug, type checks / uri-decode, expression inline|file}; output options fixed"))
        conds.append(Condition(f"{fn}:plumbing", "cli", H, fn, {"mode": "plumbing", "plumb_e": plumb}, T, required=False,
                               bounds="every option combination (pretty, output stdout|file, document file|stdin, ...) x one accepted and one rejected "
                                      "expression x one valid and one truncated document"))
    return Plan(
        conditions=conds,
        explanation=(
            "cli.setup_parser (the real argparse definition) and handle_path_command / handle_pointer_command / handle_patch_command are "
            "executed for every combination of the boolean options chosen by the solver's path search, expression and document drawn from "
            "pools by symbolic indices: for inputs the library accepts, the bytes written (stdout or the -o file) must equal json.dumps of "
            "what the corresponding library call returns (with the same unicode/uri/type-check options) and the status must be 0; for "
            "inputs the library rejects, status 1, exactly one line on stderr, nothing on stdout and - unless --debug - no exception "
            "escaping (which is what a traceback is). The operating system is stubbed: argparse.FileType opens an in-memory file table, "
            "sys.stdin/stdout/stderr are StringIO."),
        assumptions=["OS stub: argparse.FileType.__call__ -> in-memory files; sys.std* -> StringIO; sys.exit observed as SystemExit",
                     "everything is concretised by the pools: this is solver-driven enumeration of the option table, not symbolic reasoning over text"],
        outside=["real files, encodings, permissions, process exit codes and tracebacks as printed by the interpreter", "inputs outside the pools"],
    )
