"""Lane-R obligations (z3 regular-language queries on the live patterns of /repo)."""
from __future__ import annotations

from typing import Any, Callable, Dict, List, Optional

from vlib.driver import Obligation


def _live():
    import jsonpath
    from jsonpath.lex import Lexer

    env = jsonpath.JSONPathEnvironment()
    return env, env.lexer


def _rule_patterns(lexer: Any) -> List[tuple]:
    """The ordered (token, pattern) list exactly as Lexer.compile_rules builds it (read back from the compiled regex)."""
    import re

    pat = lexer.rules.pattern
    # split on top-level "|(?P<" boundaries
    out = []
    depth = 0
    start = 0
    i = 0
    in_class = False
    while i < len(pat):
        c = pat[i]
        if c == "\\":
            i += 2
            continue
        if in_class:
            if c == "]":
                in_class = False
        elif c == "[":
            in_class = True
            if i + 1 < len(pat) and pat[i + 1] == "]":
                i += 1
        elif c == "(":
            depth += 1
        elif c == ")":
            depth -= 1
        elif c == "|" and depth == 0:
            out.append(pat[start:i])
            start = i + 1
        i += 1
    out.append(pat[start:])
    rules = []
    for r in out:
        m = re.match(r"\(\?P<([A-Z_]+)>(.*)\)$", r, re.S)
        rules.append((m.group(1), m.group(2)))
    return rules


def _compile_screen(embed: Callable[[str], str], must: str, want_shape: Optional[Callable[[str], Any]] = None) -> Callable[[str], Optional[str]]:
    """must: 'family' (only JSONPathError may escape) | 'reject' (must be refused with a JSONPathError) | 'accept'.
    want_shape(w): when given, an accepted query must compile to exactly that structure (not merely compile)."""

    def screen(w: str) -> Optional[str]:
        import jsonpath

        from vlib import oracle

        q = embed(w)
        try:
            c = jsonpath.JSONPathEnvironment().compile(q)
        except jsonpath.JSONPathError:
            return f"{q!r} is rejected" if must == "accept" else None
        except Exception as e:  # noqa: BLE001
            return f"{q!r} raises {type(e).__name__}: {e}"
        if must == "reject":
            return f"{q!r} compiles"
        if want_shape is not None and oracle.shape(c) != want_shape(w):
            return f"{q!r} compiles to {oracle.shape(c)!r}, not to {want_shape(w)!r}"
        return None

    return screen


def _obl(oid: str, build: Callable[[], Any], embed: Callable[[str], str], must: str, fn: str, note: str = "",
         want_shape: Optional[Callable[[str], Any]] = None) -> Obligation:
    def run() -> Dict[str, Any]:
        from vlib import rx

        try:
            lang, minus = build()
        except rx.Untranslatable as e:
            return {"status": "inconclusive", "detail": f"pattern uses an untranslatable construct: {e}"}
        res = rx.difference_witnesses(lang, minus, _compile_screen(embed, must, want_shape), max_shapes=150)
        if res["status"] == "violated":
            q = embed(res["witness"])
            call = f"{fn}({q!r})" if want_shape is None else f"{fn}({q!r}, {want_shape(res['witness'])!r})"
            res["replay"] = {"harness": "harness/c06.py" if fn == "only_family" else "harness/c07.py", "fn": fn, "params": {},
                             "call": call}
        return res

    return Obligation(oid, run, kind="z3-regex", note=note)


def _index_tokens():
    """Language of TOKEN_INT values reaching the index branch: the INT rule minus negative exponents (lexed as FLOAT)."""
    import z3

    from vlib import rx

    env, lx = _live()
    rules = dict(_rule_patterns(lx))
    int_rule = rx.to_z3(rules["INT"])
    any_ = z3.Star(rx.ALLCHAR)
    negexp = z3.Concat(any_, rx.chars("eE"), rx.lit("-"), any_)
    return z3.Intersect(int_rule, z3.Complement(negexp)), rules


def c06_obligations() -> List[Obligation]:
    import z3

    from vlib import rx

    def idx():
        lang, _ = _index_tokens()
        return lang, rx.py_int_domain()

    def slice_part(group: str):
        def b():
            env, lx = _live()
            part = rx.to_z3(rx.group_pattern(lx.slice_list_pattern, group))
            return part, z3.Union(rx.py_int_domain(), rx.lit(""))

        return b

    def flt():
        _, lx = _live()
        rules = dict(_rule_patterns(lx))
        return rx.to_z3(rules["FLOAT"]), rx.py_float_domain()

    def intlit():
        _, lx = _live()
        rules = dict(_rule_patterns(lx))
        return rx.to_z3(rules["INT"]), rx.py_float_domain()

    def flags():
        from jsonpath.parse import Parser

        _, lx = _live()
        fl = rx.to_z3(rx.group_pattern(lx.re_pattern, "G_RE_FLAGS"))
        return fl, z3.Star(rx.chars("".join(Parser.RE_FLAG_MAP.keys())))

    return [
        _obl("R:index-token-in-dom(int)", idx, lambda w: f"$[{w}]", "family", "only_family",
             "every TOKEN_INT the lexer can hand to the index branch is convertible by int(), or the parser refuses it with a JSONPath error"),
        _obl("R:slice-start-in-dom(int)", slice_part("G_LSLICE_START"), lambda w: f"$[{w}:]", "family", "only_family"),
        _obl("R:slice-stop-in-dom(int)", slice_part("G_LSLICE_STOP"), lambda w: f"$[:{w}]", "family", "only_family"),
        _obl("R:slice-step-in-dom(int)", slice_part("G_LSLICE_STEP"), lambda w: f"$[::{w}]", "family", "only_family"),
        _obl("R:float-token-in-dom(float)", flt, lambda w: f"$[?@.a == {w}]", "family", "only_family"),
        _obl("R:int-literal-in-dom(float)", intlit, lambda w: f"$[?@.a == {w}]", "family", "only_family"),
        _obl("R:regex-flags-in-flag-map", flags, lambda w: f"$[?@.a =~ /a/{w}]", "family", "only_family"),
    ]


def c07_obligations() -> List[Obligation]:
    import z3

    from vlib import rx

    def rule(name: str):
        _, lx = _live()
        return rx.to_z3(dict(_rule_patterns(lx))[name])

    def rfc_int_in_rule():
        return rx.rfc_int(), rule("INT")

    def rfc_number_in_rules():
        return rx.rfc_number(), z3.Union(rule("INT"), rule("FLOAT"))

    def shorthand_in_key():
        _, lx = _live()
        return rx.rfc_name_shorthand(), rx.to_z3(lx.key_pattern)

    def shorthand_whole():
        # names the key rule matches only in part: L(rfc shorthand) minus L(key rule) is empty by the obligation above, so ask
        # for names whose *proper prefix* is the longest key-rule match: rfc names that extend a key-rule match by a character
        # the key rule's continuation class does not contain.
        _, lx = _live()
        key = rx.to_z3(lx.key_pattern)
        return rx.rfc_name_shorthand(), key

    def shorthand_after_ddot():
        # shorthand names that some rule placed before BARE_PROPERTY can start to match (it would win the ordered choice)
        _, lx = _live()
        rules = _rule_patterns(lx)
        names = [n for n, _ in rules]
        stealers = []
        for n, pat in rules[: names.index("BARE_PROPERTY")]:
            if n in ("DOT_PROPERTY", "DDOT"):
                continue
            try:
                r = rx.to_z3(pat)
            except rx.Untranslatable:
                continue
            # a name that *is* a match of the earlier rule, or such a match followed by one more name character
            stealers.append(z3.Concat(r, z3.Option(rx.lit("x"))))
        stolen = z3.Intersect(rx.rfc_name_shorthand(), z3.Union(*stealers))
        reserved = z3.Concat(z3.Union(*[rx.lit(wd) for wd in (
            "and", "or", "not", "in", "contains", "true", "false", "null", "nil", "none", "undefined", "missing",
            "True", "False", "Null", "Nil", "None")]), z3.Star(rx.ALLCHAR))
        # every shorthand name an earlier rule could start to match (other than reserved-word-led ones) still compiles
        # to a descendant segment with that name
        return stolen, reserved

    def blank_in_skip():
        return z3.Plus(rx.chars(" \t\n\r")), rule("SKIP")

    def slice_in_rule():
        _, lx = _live()
        s = rx.rfc_blank()
        i = rx.rfc_int()
        rfc_slice = z3.Concat(z3.Option(z3.Concat(i, s)), rx.lit(":"), s, z3.Option(z3.Concat(i, s)),
                              z3.Option(z3.Concat(rx.lit(":"), z3.Option(z3.Concat(s, i)))))
        return rfc_slice, rx.to_z3(lx.slice_list_pattern)

    def index_accepts_only_rfc_int():
        lang, _ = _index_tokens()
        return z3.Intersect(lang, rx.py_int_domain()), rx.rfc_int()

    def slice_part_accepts_only_rfc_int(group: str):
        def b():
            _, lx = _live()
            part = rx.to_z3(rx.group_pattern(lx.slice_list_pattern, group))
            return z3.Intersect(part, rx.py_int_domain()), rx.rfc_int()

        return b

    obls = [
        _obl("R:rfc-int-in-INT-rule", rfc_int_in_rule, lambda w: f"$[{w}]", "family", "only_family"),
        _obl("R:rfc-number-in-INT|FLOAT", rfc_number_in_rules, lambda w: f"$[?@.a == {w}]", "accept", "accepts"),
        _obl("R:rfc-member-name-shorthand-in-key-rule", shorthand_in_key, lambda w: f"$.{w}", "accept", "accepts"),
        _obl("R:shorthand-name-is-one-name-selector", shorthand_whole, lambda w: f"$.{w}", "accept", "compiles_to",
             "a shorthand name is consumed whole by the key rule: it compiles to a single name selector with that name",
             want_shape=lambda w: ("query", False, (("list", (("name", w),)),))),
        _obl("R:descendant-shorthand-name", shorthand_after_ddot, lambda w: f"$..{w}", "accept", "compiles_to",
             "after '..' a shorthand name (not a reserved word) compiles to a descendant segment with that name",
             want_shape=lambda w: ("query", False, (("desc",), ("list", (("name", w),))))),
        _obl("R:rfc-blank-space-in-SKIP", blank_in_skip, lambda w: f"${w}.a", "accept", "accepts"),
        _obl("R:rfc-slice-selector-in-slice-rule", slice_in_rule, lambda w: f"$[{w}]", "family", "only_family"),
        _obl("R:index-branch-accepts-only-rfc-int", index_accepts_only_rfc_int, lambda w: f"$[{w}]", "reject", "rejects",
             "tokens the index branch would convert that are not RFC ints (leading zeros, -0, non-ASCII digits) must be refused"),
    ]
    return obls + [first_set_obligation()]


def first_set_obligation() -> Obligation:
    """Ordered choice: no rule placed before INT / FLOAT / the slice rule / DOT_PROPERTY can start with the characters
    those RFC tokens start with, except rules that are themselves the intended reading (FLOAT before INT, slice before INT)."""

    def run() -> Dict[str, Any]:
        import z3

        from vlib import rx

        _, lx = _live()
        rules = _rule_patterns(lx)
        names = [n for n, _ in rules]
        digit_start = z3.Concat(z3.Union(rx.D09, rx.lit("-")), z3.Star(rx.ALLCHAR))
        problems = []
        checked = 0
        inconc = []
        for n, pat in rules[: names.index("INT")]:
            if n in ("FLOAT", "LSLICE"):
                continue
            try:
                r = rx.to_z3(pat)
            except rx.Untranslatable:
                # look-around rules: only their literal first character matters
                if pat[:1] in "0123456789-":
                    problems.append(n)
                else:
                    inconc.append(n)
                continue
            st, w = rx.is_subset(z3.Intersect(r, digit_start), z3.Empty(rx.RS))
            checked += 1
            if st == "sat":
                problems.append(f"{n} can match {w!r}")
            elif st != "unsat":
                inconc.append(n)
        if problems:
            return {"status": "inconclusive", "detail": f"rules before INT that can start like an integer: {problems}"}
        return {"status": "discharged",
                "detail": f"{checked} earlier rules cannot start with a digit or '-' (z3 unsat each); look-around rules start with a quote: {inconc}"}

    return Obligation("R:no-earlier-rule-steals-an-integer", run, kind="z3-regex")
