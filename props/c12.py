"""C12: query iterator operations behave as list slicing on the match sequence."""
from __future__ import annotations

import itertools
import random
from typing import List

from vlib.driver import Plan
from vlib.xh import Condition

H = "harness/c12.py"
OPS = ["limit", "head", "first", "skip", "drop", "tail", "last", "take", "tee", "first_one", "one", "last_one"]
CORE = ["limit", "skip", "tail", "take", "tee", "first_one", "last_one"]
VIEWS = ["values", "locations", "items", "pointers", "iter"]


def plan(tier: str, seed: int) -> Plan:
    thorough = tier == "thorough"
    rng = random.Random(seed)
    T = 200 if thorough else 60
    chains = [[o] for o in OPS]
    pairs = [list(c) for c in itertools.product(CORE, repeat=2)]
    if not thorough:
        rng.shuffle(pairs)
        pairs = pairs[:24]
    chains += pairs
    if thorough:
        chains += [list(c) for c in itertools.product(OPS, repeat=2) if list(c) not in chains]
        chains += [[rng.choice(CORE) for _ in range(3)] for _ in range(120)]
    else:
        chains += [[rng.choice(CORE) for _ in range(3)] for _ in range(4)]
        chains += [["limit", "skip", "limit"], ["limit", "first_one", "limit"], ["limit", "take", "limit"], ["head", "drop", "first"], ["skip", "limit", "take"]]
        chains += [["take", "skip", "tee"], ["skip", "take", "tail"], ["head", "drop", "last"], ["first", "one", "last_one"]]
    conds: List[Condition] = []
    seen = set()
    for k, ch in enumerate(chains):
        key = tuple(ch)
        if key in seen:
            continue
        seen.add(key)
        view = VIEWS[k % len(VIEWS)]
        ml = 4 if len(ch) < 3 else 3
        conds.append(Condition(f"chain:{'.'.join(ch)}:{view}", "chain", H, "chain", {"ops": ch, "view": view, "maxlen": ml}, T * len(ch),
                               required=len(ch) < 3,
                               bounds=f"match sequence = $[*] over a symbolic List[int] of length<={ml}; every count from the pool -1..{ml + 2} "
                                      "(concretised by the harness: the C iterators refuse integer proxies)"))
    for k, ch in enumerate([["skip"], ["limit"], ["tail"], ["take"], ["first_one"]] + ([["limit", "skip"], ["skip", "tail"], ["take", "limit"]] if thorough else [])):
        for view in (VIEWS if thorough else [VIEWS[k % len(VIEWS)], VIEWS[(k + 2) % len(VIEWS)]]):
            conds.append(Condition(f"dup:{'.'.join(ch)}:{view}", "chain", H, "chain", {"ops": ch, "view": view, "maxlen": 3, "query": "$[0, 0, *]"}, T * len(ch),
                                   required=False, bounds="match sequence = $[0, 0, *]: the first element's node occurs three times in the sequence"))
    return Plan(
        conditions=conds,
        explanation=(
            "Every Query method except select is executed on the match sequence of $[*] over a symbolic list (length and elements "
            "symbolic): chains of 1-3 operations from limit/head/first, skip/drop, tail/last, take, tee, first_one/one, last_one, "
            "ending in one of the views values/locations/items/pointers or plain iteration, must produce what the same list operations "
            "produce, including what is left in the original iterator after take, n independent copies after tee, and a ValueError "
            "that leaves the sequence unchanged for a negative count."),
        assumptions=["counts are concretised from a pool before the call (itertools/deque reject integer proxies): over counts this is "
                     "exhaustive enumeration of the pool driven by the solver's path search"],
        outside=["chains longer than 3", "counts outside the pool", "sequences longer than 4"],
    )
