"""C01: RFC 9535 segments and selectors yield exactly the specified nodelist."""
from __future__ import annotations

import random
from typing import Any, Dict, List

from vlib import catalogue, oracle, stubs
from vlib.driver import Obligation, Plan
from vlib.xh import Condition

H = "harness/c01.py"
TARGETS = ["jsonpath.selectors.*.resolve", "jsonpath.path.JSONPath.finditer/findall", "jsonpath.parse.Parser.parse_path"]


def _spellings(query: list) -> List[str]:
    """Every surface form the harness family transfers to (RFC-allowed spellings)."""
    out = []
    for q in ("'", '"'):
        for sp in ("", " ", "\n\t "):
            for shorthand in (True, False):
                out.append(oracle.query_text(query, "$", q, sp, shorthand))
    return sorted(set(out))


def spelling_obligation(query: list) -> Obligation:
    canon = oracle.query_text(query)

    def run() -> Dict[str, Any]:
        import jsonpath

        env = jsonpath.JSONPathEnvironment()
        bracketed = oracle.query_text(query, shorthand=False)
        try:
            base = oracle.shape(env.compile(bracketed))
        except jsonpath.JSONPathError as e:
            return {"status": "violated", "detail": f"the bracketed spelling {bracketed!r} does not compile: {e}",
                    "replay": {"harness": "harness/c01_spell.py", "fn": "same_shape", "params": {}, "call": f"same_shape({bracketed!r}, {bracketed!r})"}}
        n = 0
        for text in _spellings(query):
            try:
                sh = oracle.shape(env.compile(text))
            except Exception as e:  # noqa: BLE001
                sh = ("error", type(e).__name__, str(e))
            n += 1
            if sh != base:
                return {
                    "status": "violated",
                    "detail": f"spelling {text!r} compiles to a different structure than {canon!r}",
                    "replay": {"harness": "harness/c01_spell.py", "fn": "same_shape", "params": {},
                               "call": f"same_shape({bracketed!r}, {text!r})"},
                }
        return {"status": "discharged", "detail": f"{n} spellings of {canon} compile to one structure"}

    return Obligation(f"spell:{canon}", run, kind="deterministic-compile")


def plan(tier: str, seed: int) -> Plan:
    thorough = tier == "thorough"
    rng = random.Random(seed)
    T = 240 if thorough else 75
    conds: List[Condition] = []
    ml = 6 if thorough else 4
    conds.append(Condition("index-array", "index", H, "index_array", {"maxlen": 8 if thorough else 5}, T,
                           bounds=f"List[int] len<={8 if thorough else 5}; index any int in [min_int_index, max_int_index]"))
    conds.append(Condition("index-object", "indexobj", H, "index_object", {}, T,
                           bounds="object with members '0','1','-1','01' of symbolic presence; index in [-3,3]"))
    for name, lo, hi in ((("pos-small", 1, 2), ("pos-large", 3, 6), ("neg-small", -2, -1), ("neg-large", -6, -3), ("zero", 0, 0)) if thorough
                         else (("pos", 1, 3), ("neg", -3, -1), ("zero", 0, 0))):
        conds.append(Condition(f"slice-{name}", "slice", H, "slice_array", {"maxlen": ml, "steplo": lo, "stephi": hi},
                               T * 2, bounds=f"array len<={ml}; start/stop any int in range or omitted; step in [{lo},{hi}] or omitted"))
    conds.append(Condition("wrong-kind", "wrongkind", H, "wrong_kind", {}, T,
                           bounds="each selector kind applied to a symbolic primitive (None/bool/int/str) nested in an object and in an array"))
    conds.append(Condition("wrong-container", "wrongcont", H, "wrong_container", {}, T,
                           bounds="slice on object, name on array, index on nested array; leaves symbolic"))
    pairs = list(catalogue.CORE_SELECTOR_QUERIES)
    if thorough:
        qs = catalogue.selector_queries(3, rng, 400, 200)
        sp = ["arr", "obj2", "nest1", "nest2", "nest3", "deep", "numkeys", "wrapobjarr"]
        for i, q in enumerate(qs):
            pairs.append((q, sp[i % len(sp)]))
            pairs.append((q, sp[(i * 3 + 1) % len(sp)]))
            pairs.append((q, sp[(i * 5 + 2) % len(sp)]))
    else:
        qs = catalogue.selector_queries(2, rng, 6, 0)
        rng.shuffle(qs)
        for i, q in enumerate(qs[:10]):
            pairs.append((q, ["nest1", "nest2", "nest3", "deep", "numkeys"][i % 5]))
    seen = set()
    obligations: List[Obligation] = []
    for q, spine in pairs:
        text = oracle.query_text(q)
        key = (text, spine)
        if key in seen:
            continue
        seen.add(key)
        conds.append(Condition(f"gen:{spine}:{text}", "generic", H, "generic", {"query": q, "spine": spine, "maxn": 3},
                               T, required=False,
                               bounds=f"spine {spine}: 3 leaves int|str + 3 int leaves, array length<=3, member order/presence bits"))
        if thorough or (q, spine) in catalogue.CORE_SELECTOR_QUERIES:
            conds.append(Condition(f"gen-async:{spine}:{text}", "generic", H, "generic", {"query": q, "spine": spine, "maxn": 2, "route": "async"},
                                   T, required=False,
                                   bounds=f"as gen:*, the nodelist obtained through finditer_async (spine {spine}, array length<=2)"))
        if text not in {o.oid[6:] for o in obligations}:
            obligations.append(spelling_obligation(q))
    try:
        from props import lane_r_c01

        obligations.extend(lane_r_c01.obligations())
    except ImportError:
        pass
    return Plan(
        conditions=conds,
        obligations=obligations,
        selfchecks=[stubs.validate_pyslice, oracle_selfcheck],
        explanation=(
            "Real IndexSelector/SliceSelector/PropertySelector/WildSelector/RecursiveDescentSelector/ListSelector.resolve "
            "and JSONPath.finditer/findall are executed symbolically: index and slice bounds are solver integers over the whole "
            "configured range, array length/elements, leaf kinds (int|str), member presence and order are symbolic; the assertion "
            "compares values (identity for containers), location parts and normalized paths with an independent RFC 9535 "
            "evaluator. Query text is a generated catalogue compiled by the live compiler; each catalogue query is also "
            "compiled in every RFC spelling (dot/bracket, both quotes, blank space) and must yield one structure, so the "
            "solver verdict on the canonical form transfers."),
        assumptions=[
            "PySlice stub (transcription of CPython PySlice_Unpack/AdjustIndices) replaces the C slice object in slice conditions; validated against slice.indices on a grid every run",
            "Arr: arrays in slice conditions are a pure-Python Sequence",
            "generic conditions use leaves of kind int|str only (selectors distinguish string / other primitive / container)",
        ],
        outside=["arrays longer than the stated length bound", "documents deeper than 3", "queries with more than 3 segments",
                 "member-name text (covered at enumeration strength by C03)", "symbolic query text (lexer is a C regex)"],
    )


def oracle_selfcheck():
    """The reference evaluator must agree with the repo's own pinned RFC example table."""
    try:
        from tests.test_ietf import TEST_CASES
    except Exception as e:  # noqa: BLE001
        return None  # tests not importable: nothing to validate against
    import jsonpath

    # parse via the real compiler + shape -> AST only for selector-only queries
    from vlib.shape2ast import ast_of

    n = 0
    for case in TEST_CASES:
        try:
            ast = ast_of(jsonpath.compile(case.path))
        except Exception:  # noqa: BLE001
            continue
        if ast is None:
            continue
        got = [v for _, v in oracle.evaluate(ast, case.data)]
        if got != case.want:
            return f"oracle disagrees with pinned test {case.description!r}: {got!r} != {case.want!r}"
        n += 1
    if n < 15:
        return f"oracle self-check covered only {n} pinned cases"
    return None
