"""C11: all query entry points agree with one another on every input."""
from __future__ import annotations

import itertools
import random
from typing import List

from vlib.driver import Plan
from vlib.xh import Condition

H = "harness/c11.py"

SIMPLE = [("$.*", "obj2"), ("$..*", "nest1"), ("$.a", "obj2"), ("$[?@.a == 1]", "objarr"), ("$..a", "deep"), ("$[0:2]", "arr"),
          ("$.zz", "obj2"), ("$[?@.a]", "nest2")]
OPERAND_POOL = {
    "obj2": ["$.a", "$.b", "$.*", "$.zz", "$[?@ == 1]", "$..*"],
    "arr": ["$[0]", "$[1]", "$[*]", "$[?@ > 0]", "$[-1]", "$[1:]"],
    "nest1": ["$.a.*", "$.b.*", "$..a", "$..*", "$.b.a", "$.a[0]"],
    "objarr": ["$[*].a", "$[*].b", "$[0].*", "$[?@.b].a", "$..a"],
}


def plan(tier: str, seed: int) -> Plan:
    thorough = tier == "thorough"
    rng = random.Random(seed)
    T = 150 if thorough else 40
    conds: List[Condition] = []
    for q, s in SIMPLE:
        conds.append(Condition(f"simple:{s}:{q}", "entry", H, "entry", {"operands": [q], "ops": [], "spine": s, "leaf": "intstr", "leaf2": "int", "maxn": 1},
                               T * 2, bounds="4 symbolic leaves (two of any primitive kind, two int), length<=2, presence/order bits"))
    combos = []
    for s, pool in OPERAND_POOL.items():
        for k in (2, 3):
            for ops in itertools.product("|&", repeat=k - 1):
                combos.append((s, k, list(ops)))
    core = [
        ("obj2", ["$.a", "$.b"], ["|"]), ("obj2", ["$.a", "$.b"], ["&"]), ("obj2", ["$.a", "$.b", "$.*"], ["&", "&"]),
        ("obj2", ["$.*", "$.a", "$.b"], ["&", "&"]), ("obj2", ["$.a", "$.b", "$.a"], ["|", "&"]), ("obj2", ["$.*", "$.b", "$.a"], ["&", "|"]),
        ("arr", ["$[*]", "$[0]", "$[1]"], ["&", "&"]), ("arr", ["$[*]", "$[1:]", "$[?@ > 0]"], ["&", "&"]),
        ("arr", ["$[0]", "$[1]", "$[0]"], ["|", "|"]), ("nest1", ["$..*", "$.a.*", "$.b.*"], ["&", "&"]),
        ("nest1", ["$.a.*", "$.b.*"], ["&"]), ("objarr", ["$[*].a", "$[*].b", "$[0].*"], ["&", "&"]),
        ("obj2", ["$.*", "$.*", "$.a", "$.b"], ["&", "&", "&"]),
        # operands that differ in root kind: each operand inside a compound means what it means alone
        ("obj2", ["$.*", "^[?@.a == 1]"], ["&"]), ("obj2", ["^[?@.a == 1]", "$[?@ == 1]"], ["&"]), ("obj2", ["^[?@.a]", "$.a", "^.*"], ["|", "&"]),
        ("obj2", ["$.a", "^[?@.a == 1]", "$.b"], ["|", "|"]),
    ]
    picked = list(core)
    k = 60 if thorough else 6
    for s, n, ops in rng.sample(combos, min(k, len(combos))):
        picked.append((s, [rng.choice(OPERAND_POOL[s]) for _ in range(n)], ops))
    seen = set()
    for s, operands, ops in picked:
        key = (s, tuple(operands), tuple(ops))
        if key in seen:
            continue
        seen.add(key)
        text = operands[0] + "".join(f" {o} {q}" for o, q in zip(ops, operands[1:]))
        for leaf in (["boolint"] if not thorough else ["boolint", "nbi"]):
            conds.append(Condition(f"compound:{s}:{text}:{leaf}", "entry-compound", H, "entry",
                                   {"operands": operands, "ops": ops, "spine": s, "leaf": leaf, "leaf2": "int",
                                    "maxn": 2 if s == "arr" else 1}, T * (1 if s in ("obj2", "arr") else 3),
                                   required=s in ("obj2", "arr"),
                                   bounds=f"{len(operands)} operands; leaves {leaf} (values decide which intersections are empty)"))
    for q, s in [("$..*", "nest1"), ("$.a | $.b", "obj2"), ("$[?@.a == $[0].a]", "objarr"), ("$.* & $..a", "nest1"), ("$.a[?@ == $.b.a]", "nest1")] + (
            [("$..a", "deep"), ("$[*]", "arr"), ("$.a & $.b & $.a", "obj2")] if thorough else []):
        conds.append(Condition(f"forms:{s}:{q}", "forms", H, "forms", {"operands": [q], "ops": [], "spine": s, "maxn": 1, "pooln": 14 if thorough else (4 if s == "nest1" else 6)}, T * 2, required=False,
                               bounds="2 leaves chosen by symbolic indices from a pool of 4-6 (thorough 14) values (solver-driven enumeration: json.dumps concretises)"))
        conds.append(Condition(f"forms-history:{s}:{q}", "forms", H, "forms_history", {"operands": [q], "ops": [], "spine": s, "maxn": 1, "pooln": 10 if thorough else 4}, T * 2, required=False,
                               bounds="as forms, pool of 4 (thorough 10): blank-space-led text, async entry points on text/file/bytes, results of a first call "
                                      "modified before a second call on the same text"))
    return Plan(
        conditions=conds,
        explanation=(
            "JSONPathEnvironment.findall/finditer/match/query, JSONPath.* and CompoundJSONPath.findall/finditer/match/query "
            "(and the module-level aliases) are executed on one symbolic document and compared with each other; for compound "
            "queries with 2-4 operands the result must also equal the fold 'union = left then right, intersection = left "
            "restricted to values also produced by right' computed from the operands' own results. Leaf values are symbolic "
            "so the solver decides which intersections are empty. Text/file forms: pooled leaves (enumeration)."),
        assumptions=["intersection membership uses the library's notion of value equality (Python ==)",
                     "text and file document forms are explored over pooled leaves only (json.dumps is a C boundary)"],
        outside=["more than 4 compound operands", "documents beyond the spines' shape"],
    )
