"""C06: only the documented error families ever escape; every call terminates."""
from __future__ import annotations

from typing import Any, Dict, List

from vlib.driver import Obligation, Plan
from vlib.xh import Condition

H = "harness/c06.py"

EVAL_QUERIES = [
    "$[?@.a in @.b]", "$[?@.a contains @.b]", "$[?@.b in 'abc']", "$[?'a' in @.a]", "$[?@.a in _.a]", "$[?_.k contains @.a]",
    "$[?@.a < @.b]", "$[?@.a >= _.k]", "$[?@.a == @.b || @.a != _.k]", "$[?@.a =~ /a+/]", "$[?@.a =~ /^.$/ims]",
    "$[?length(@.a) > @.b]", "$[?count(@.a.*) == @.b]", "$[?value(@.a..*) < 1]", "$[?match(@.a, @.b)]", "$[?search(@.a, @.b)]",
    "$[?match(@.a, '(')]", "$[?search(@.b, '[')]", "$[?typeof(@.a) == @.b]", "$[?isinstance(@.a, @.b)]", "$[?# in @.a]", "$[?# < @.a]",
    "$[?@.a[0] == @.b.a]", "$..[?@ in [1, 'a', true, null]]", "$..*[?@ > _.k]", "$.*.*.~", "$..[?@.a contains #]", "^[?@[0].a in @[0].b]",
    "$[?@.a in [1, 2] && @.b contains 'a']", "$[?!(@.a in @.b)]", "$[?@.a[?@ in _.a]]", "$..[?length(@) == _.k]", "$[?@.a <> @.b]",
    "$[?@.a == undefined || @.b in missing]", "$[?@.* in @.b]", "$[?@.a contains @.*]",
]
SOUP = [
    "$[?@.a =~ /a{99999999999}/]", "$[?match(@.a, 'a{99999999999}')]", "$[?@.a =~ /(?u)x/a]", "$[?@.a =~ /(?a)x/]", "$[?@.a =~ /(?i)x/m]", "$[?@.a == 1.0e400]", "$.._x", "$..and", "$..#", "$.. _x", "$[?@ =~ /[/]", "$[?@ =~ /(/]", "$[?@ =~ /*/]", "$[?@ =~ /a{2,1}/]", "$[?@ =~ /\\/]", "$[?@ =~ /(?P<n>a)(?P<n>b)/]", "$[?@ =~ /a/x]",
    "$[?@.a == 1e400]", "$[?@.a == -1e400]", "$[?@.a == 1e309]", "$[?@.a == 1.5e400]", "$[?@.a == 1e-400]", "$[?@.a == 9" + "9" * 400 + "]",
    "$[?@.a == 'abc]", '$[?@.a == "abc]', "$['abc]", "$[\"a", "$[?@ =~ /abc]", "$[?@ =~ /]", "$[?@.a == '\\u12']", "$['\\x']", '$["\\ud800"]',
    "$['\\ud83d\\ude00']", "$[?@.a == '\\']", "$.", "$..", "$...", "$.[", "$[?", "$[?(", "$[?@.a ==]", "$[?== 1]", "$[?@.a && ]", "$[-]", "$[+1]",
    "$[1.5]", "$[1:2:3:4]", "$[:::]", "$.and", "$.or.not", "$[?and]", "$[?@.a and]", "$[?not]", "$[?in]", "$[?@ in]", "$[?contains 1]",
    "$[?true == ]", "$[?undefined]", "$[?missing == missing]", "$ | ", "$ & $ |", "| $", "^", "^^", "$~", "$#", "$_", "$@", "@", "#", "_", "~",
    "$[?_]", "$[?#]", "$[?@ == #]", "$[?length()]", "$[?length(]", "$[?length(@,)]", "$[?f(]", "$[?a_b0(@) == 1]", "$[?@.a == [1, ]]",
    "$[?@.a in [1 2]]", "$[?@.a in [@.b]]", "$[?@.a in [[1]]]", "", " ", "\n", "$\x00", "$.\ud800", "$[?@.a == \x00]", "$['a'", "$[']", "$[''']",
    "$['\\'']", "$[?@ == '\\\"']", "$[?@ == \"\\'\"]", "$[9999999999999999999999]", "$[:9999999999999999999999]", "$[0x10]", "$[1_0]",
    "$[?@.a == 1_0]", "$[?@.a == 0x10]", "$[?@.a == 01]", "$[?@.a == -]", "$[?@.a == .5]", "$[?@.a == 5.]", "$[?@.a == 1e]", "$[?@.a == 1e+]",
]


def soup(text: str) -> Obligation:
    def run() -> Dict[str, Any]:
        import jsonpath

        rep = {"harness": H, "fn": "only_family", "params": {}, "call": f"only_family({text!r})"}
        try:
            try:
                jsonpath.JSONPathEnvironment().compile(text)
                what = "compiled"
            except jsonpath.JSONPathError as e:
                str(e)  # rendering the error must succeed too
                what = f"rejected ({type(e).__name__})"
        except Exception as e:  # noqa: BLE001
            return {"status": "violated", "detail": f"compile({text[:60]!r}) raised {type(e).__name__}: {str(e)[:100]}", "replay": rep}
        return {"status": "discharged", "detail": f"{text[:60]!r} {what}"}

    return Obligation(f"soup:{text[:40]}", run, kind="deterministic-probe (not solver-decided)")


PTR_PROBES = ["/" + "1" * 4301, "/a/" + "9" * 5000, "/-" + "1" * 4301, "/" + "0" * 4301, "/1" + "_" * 10, "/\\", "/\\u12", "/\\ud800", "/%", "\x00", "/" + "\U0010ffff"]
PATCH_PROBES = ["not json", "[", "", "{}", "[1]", '[{"op": "add"}]', '[{"op": "add", "path": "/" , "value": 1}, 1]', "null", '"x"',
                '[{"op": "add", "path": "/' + "1" * 4301 + '", "value": 1}]', '[{"op": "add", "path": "/a/\\\\", "value": 1}]']


def probe(kind: str, fn: str, arg: str) -> Obligation:
    def run() -> Dict[str, Any]:
        import importlib
        import os

        os.environ.setdefault("VERIF_P", "{}")
        h = importlib.import_module("harness.c06")
        rep = {"harness": H, "fn": fn, "params": {}, "call": f"{fn}({arg!r})"}
        try:
            getattr(h, fn)(arg)
        except Exception as e:  # noqa: BLE001
            return {"status": "violated", "detail": f"{fn}({arg[:40]!r}...) raised {type(e).__name__}: {str(e)[:100]}", "replay": rep}
        return {"status": "discharged", "detail": f"{fn}({arg[:40]!r})"}

    return Obligation(f"{kind}:{arg[:30]}", run, kind="deterministic-probe (not solver-decided)")


def plan(tier: str, seed: int) -> Plan:
    thorough = tier == "thorough"
    T = 150 if thorough else 45
    conds: List[Condition] = []
    qs = EVAL_QUERIES if thorough else EVAL_QUERIES[:24]
    for i, q in enumerate(qs):
        for spine in (["objarr", "obj", "arr"] if thorough else [["objarr", "obj", "arr"][i % 3]]):
            conds.append(Condition(f"eval:{spine}:{q}", "evaluate", H, "evaluate", {"qtext": q, "spine": spine, "maxn": 2 if thorough else 1}, T * 2,
                                   required=False,
                                   bounds="two positions each holding a primitive of any kind or an array/object around the leaves; "
                                          "filter context holds a symbolic primitive"))
    aq = ["$[-1]", "$[-3]", "$..[-2]", "$[?@[-2] == 1]", "$[1:3:-1]", "$[::0]", "$[?@.a[-1] > $[-9]]", "$..[?@ in [1, 'a', true, null]]", "$[?length(@.a) > @[-5]]"]
    for i, q in enumerate(aq + (qs if thorough else qs[:8])):
        spine = ["arr", "objarr", "obj"][i % 3]
        conds.append(Condition(f"eval-async:{spine}:{q}", "evaluate", H, "evaluate", {"qtext": q, "spine": spine, "maxn": 1, "route": "async"}, T * 2,
                               required=False, bounds="as eval:*, through finditer_async (coroutines driven without an event loop)"))
    illtyped = ["$[?count(1) == 1]", "$[?count(@.a) == @.b]", "$[?length(@.*) == 1]", "$[?value(@.a) == count(@.b)]", "$[?value('a') == 1]",
                "$[?count(@.a == 1) == 1]", "$[?length(@.a) && match(@.*, @.b)]", "$[?match(@.*, 1)]", "$[?count(length(@.a)) == 1]"]
    for i, q in enumerate(illtyped if thorough else illtyped[:6]):
        conds.append(Condition(f"eval-untyped:{q}", "evaluate", H, "evaluate",
                               {"qtext": q, "spine": ["objarr", "obj", "arr"][i % 3], "maxn": 1, "well_typed": False}, T * 2, required=False,
                               bounds="environment with well-typedness checks disabled: ill-typed function calls reach evaluation"))
    conds.append(Condition("pointer-text", "pointer", H, "pointer_text", {"maxs": 4 if thorough else 2}, T * 2, required=False,
                           bounds=f"pointer text: symbolic str len<={4 if thorough else 2}, escape decoding off; documents with a symbolic leaf"))
    sg = 20 if thorough else 11
    for ue in (False, True):
        for prefix in (0, 1, 2):
            conds.append(Condition(f"pointer-sigma:ue={ue}:prefix={prefix}", "pointer", H, "pointer_sigma",
                                   {"maxs": 3 if thorough else 2, "unicode_escape": ue, "prefix": prefix, "sigma": sg}, T * 2,
                                   bounds=f"pointer text = prefix {['/', '', '/a/'][prefix]!r} + up to {3 if thorough else 2} characters of the "
                                          f"first {sg} of the alphabet Sigma (solver-driven enumeration)"))
        for base in ((0, 1, 2, 3, 4, 5) if thorough else (0, 2, 4)):
            conds.append(Condition(f"relative-sigma:ue={ue}:base={base}", "relative", H, "relative_sigma",
                                   {"maxs": 2 if thorough else 1, "unicode_escape": ue, "base": base, "sigma": sg}, T * 3, required=False,
                                   bounds="relative pointer = 8 step spellings x 11 offset spellings x Sigma tail (enumeration)"))
    conds.append(Condition("patch-build-apply", "patch", H, "patch_build_apply", {}, T * 3, required=False,
                           bounds="one op dict: 11 op names (3 invalid) x symbolic presence of path/from/value x 6 pointer spellings each "
                                  "(incl. non-strings) x symbolic value; applied to one document with a symbolic leaf"))
    for lo, hi in [(0, 0), (1, 1), (2, 2), (3, 3), (4, 4), (5, 5), (6, 6), (7, 7)]:
        conds.append(Condition(f"patch-builder:{lo}-{hi}", "patch", H, "patch_builder", {"oplo": lo, "ophi": hi}, T * 3, required=False,
                               bounds="builder methods %d-%d of 8 x 15 path x 7 from spellings, symbolic values" % (lo, hi)))
    from props import lane_r

    obls = lane_r.c06_obligations() + [soup(t) for t in SOUP]
    obls += [probe("ptr", "pointer_only_family", t) for t in PTR_PROBES] + [probe("patch", "patch_only_family", t) for t in PATCH_PROBES]
    return Plan(
        conditions=conds,
        obligations=obls,
        explanation=(
            "Evaluation: Filter.resolve / env.compare (incl. in, contains, =~) / FunctionExtension.evaluate and the functions are "
            "executed symbolically with a primitive of any kind or a container at every operand position; the only exceptions "
            "allowed out are JSONPathError subclasses, and str(exc) must succeed. Pointers: JSONPointer._parse/_index/_getitem/"
            "resolve/resolve_parent/exists with symbolic text (escape decoding off) and over the alphabet Sigma (both settings); "
            "RelativeJSONPointer._parse/to. Patch: JSONPatch._build/_op_pointer/_op_value and every Op.apply on op dicts with "
            "symbolic member presence and values. Lane R (z3): every token rule whose value the parser converts (index, slice "
            "parts, INT and FLOAT literals, regex flags) is inside the domain of its conversion or the parser refuses it. "
            "Termination: every confirmed condition terminated on every path within the bounds. Token-soup strings are run as "
            "deterministic probes only (labelled, not solver-decided)."),
        assumptions=["Sigma = a / ~ 0 1 2 + - _ blank # backslash ' \" e-acute U+0661 U+1F600 U+0001 u"],
        outside=["arbitrary query text (the lexer cannot be executed symbolically; look-around rules are not translated)",
                 "regular-expression content handed to re.compile, string-escape decoding through json.loads, value-level overflow: probes only",
                 "inputs nested more than a hundred levels", "time inside the regular-expression engine"],
    )
