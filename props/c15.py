"""C15: a patch is a faithful, reusable value: document, builder and dict forms agree."""
from __future__ import annotations

import random
from typing import Any, Dict, List

from vlib.driver import Plan
from vlib.xh import Condition

H = "harness/c15.py"

SINGLE = [
    {"op": "add", "path": ["a", "$i"], "value": "$v"}, {"op": "add", "path": ["b", "new"], "value": "$vc"},
    {"op": "add", "path": ["n"], "value": "$vl"}, {"op": "addne", "path": ["b", "c"], "value": "$v"},
    {"op": "addne", "path": ["b", "new"], "value": "$vc"}, {"op": "addne", "path": ["a", "$i"], "value": "$v"},
    {"op": "addap", "path": ["a", "$i"], "value": "$v"}, {"op": "addap", "path": ["a", 7], "value": "$vc"},
    {"op": "remove", "path": ["a", "$i"]}, {"op": "remove", "path": ["b", "c"]}, {"op": "replace", "path": ["k"], "value": "$vc"},
    {"op": "replace", "path": ["a", "$i"], "value": "$vl"}, {"op": "move", "from": ["b", "c"], "path": ["a", "$i"]},
    {"op": "move", "from": ["a", 0], "path": ["b", "m"]}, {"op": "copy", "from": ["b"], "path": ["a", "$i"]},
    {"op": "copy", "from": ["a"], "path": ["b", "cp"]}, {"op": "test", "path": ["k"], "value": "$v"},
    {"op": "test", "path": ["b"], "value": {"c": "$w"}}, {"op": "replace", "path": [], "value": "$vc"},
    {"op": "add", "path": [], "value": {"a": ["$v"], "b": {}}},
]
# container values later modified by a subsequent operation of the same patch
CHAINS = [
    [{"op": "add", "path": ["n"], "value": "$vc"}, {"op": "add", "path": ["n", "x", "-"], "value": "$w"}],
    [{"op": "add", "path": ["n"], "value": "$vl"}, {"op": "add", "path": ["n", 1, 0], "value": "$v"}, {"op": "remove", "path": ["n", 0]}],
    [{"op": "replace", "path": ["k"], "value": "$vc"}, {"op": "replace", "path": ["k", "y"], "value": "$v"}],
    [{"op": "addne", "path": ["n"], "value": "$vc"}, {"op": "addap", "path": ["n", "x", 9], "value": "$w"}],
    [{"op": "replace", "path": [], "value": "$vc"}, {"op": "add", "path": ["x", 0], "value": "$w"}],
    [{"op": "add", "path": ["a", "-"], "value": "$vl"}, {"op": "move", "from": ["a", 0], "path": ["b", "m"]}, {"op": "add", "path": ["b", "m2"], "value": "$v"}],
    [{"op": "copy", "from": ["b"], "path": ["n"]}, {"op": "add", "path": ["n", "c2"], "value": "$v"}, {"op": "test", "path": ["b"], "value": {"c": "$w"}}],
    [{"op": "add", "path": ["n"], "value": "$vc"}, {"op": "copy", "from": ["n"], "path": ["m"]}, {"op": "add", "path": ["m", "x", "-"], "value": "$w"}],
    [{"op": "test", "path": ["k"], "value": "$v"}, {"op": "remove", "path": ["k"]}, {"op": "addne", "path": ["k"], "value": "$vl"}],
]


def plan(tier: str, seed: int) -> Plan:
    thorough = tier == "thorough"
    rng = random.Random(seed)
    T = 150 if thorough else 50
    conds: List[Condition] = []
    lists = [[o] for o in SINGLE] + CHAINS
    for _ in range(60 if thorough else 6):
        lists.append([rng.choice(SINGLE) for _ in range(rng.choice([2, 3]))])
    for k, ops in enumerate(lists):
        name = "+".join(o["op"] for o in ops)
        vleaf = ("nbi" if len(ops) < 3 else "boolint") if any(o["op"] == "test" for o in ops) else "optint"  # JSON null is a value like any other
        conds.append(Condition(f"faithful:{k}:{name}", "faithful", H, "faithful", {"ops": ops, "vleaf": vleaf}, T, required=False,
                               bounds="operation list fixed in shape; array index from {0,1,2,3,'-'}, values and document leaves symbolic ints "
                                      "or null (null|bool|int when a test is present); document {a: array len<=2, b: {c, '1'}, k, '0'}"))
    for opts in ({"uri_decode": True}, {"unicode_escape": False}, {"uri_decode": True, "unicode_escape": False}, {}):
        conds.append(Condition(f"options:{opts}", "options", H, "options",
                               {"opts": opts, "rawpaths": ["/a%20b/n", "/x\\u0041", "/a b/n", "/a%20b/c", "/n", "/xA"]}, T,
                               bounds="6 pointer texts on which uri_decode / unicode_escape make a difference x 3 operation lists"))
    conds.append(Condition("options:escape-survives-decoding", "options", H, "options",
                           {"opts": {}, "rawpaths": ["/\\u005cu0041", "/a\\u005c", "/n\\u005c\\u005c"]}, T, required=False,
                           bounds="3 pointer texts whose decoded tokens still contain a backslash x 3 operation lists (known finding C15-printed-path-decoded-again)"))
    conds.append(Condition("options:percent-survives-decoding", "options", H, "options",
                           {"opts": {"uri_decode": True}, "rawpaths": ["/a%2541", "/%2525"]}, T, required=False,
                           bounds="2 pointer texts whose URI-decoded tokens still contain a percent sign x 3 operation lists (same known finding)"))
    conds.append(Condition("variants", "variants", H, "variants", {}, T * 2,
                           bounds="add vs addne vs addap on 16 target locations (digit-named object members included), document with symbolic leaves and array length<=2"))
    return Plan(
        conditions=conds,
        explanation=(
            "JSONPatch.__init__/_load/_build/_op_pointer/_op_value, the eight builder methods, asdicts/asdict and every Op.apply are "
            "executed symbolically: for operation lists of 1-3 of the eight operations the document form, the builder chain and "
            "JSONPatch(p.asdicts()) must print the same dicts (each carrying the given op name) and have the same effect on a "
            "symbolic document; after apply the patch and the caller's list are unchanged, a second application to an equal "
            "document gives an equal result, and results share no structure with each other or the patch (container values later "
            "modified by an operation of the same patch included). addne/addap are compared with add on 16 targets."),
        assumptions=["pointer strings are concrete (indices come from a pool of five spellings)"],
        outside=["operation lists longer than 3"],
    )
