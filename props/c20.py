"""C20: match -> pointer -> patch edits exactly the matched node."""
from __future__ import annotations

from typing import List

from vlib.driver import Plan
from vlib.xh import Condition

H = "harness/c20.py"
Q0 = ["$.*", "$..*", "$['1']", "$['+1']", "$['-1'][0]", "$['-1'][-1]", "$['-1'][::-1]", "$['01']['~']", "$['01']['/']", "$..['']", "$['01'].é", "$['01']['-0']", "$['01']['0']",
      "$[?@ == 1]", "$..[?@ > 0]", "$['01'].*", "$[1]", "$[-1]"]
Q1 = ["$.*", "$..*", "$.x[0].*", "$..x", "$..x[*]", "$..[?@ == 1]", "$.*.*"]
Q2 = ["$[*]", "$..*", "$[1]['0']", "$[1]['1'][0]", "$[1][0]", "$[1][1]", "$[0][-1]", "$[0][1:]", "$..[0]", "$[?@ == 1]"]


def plan(tier: str, seed: int) -> Plan:
    thorough = tier == "thorough"
    T = 200 if thorough else 60
    conds: List[Condition] = []
    for q in Q0:
        conds.append(Condition(f"names:{q}", "pipeline", H, "pipeline", {"qtext": q, "doc": 0}, T,
                               bounds="document with members '1','+1','-1','01','~','/','','é' (fixed), symbolic int leaves, array length<=2"))
    for q in (Q1 if thorough else Q1[:4]):
        for lo, hi in ([(0, 3), (4, 7), (8, 11), (12, 14), (15, 17)] if thorough else [(0, 8), (9, 17)]):
            conds.append(Condition(f"pool:{q}:{lo}-{hi}", "pipeline", H, "pipeline",
                                   {"qtext": q, "doc": 1, "alo": lo, "ahi": hi, "next_only": not thorough}, T * 3, required=False,
                                   bounds="two distinct member names chosen by symbolic indices from a pool of 18 look-alike / escaped / non-ASCII "
                                          "names (enumeration; quick: 18 adjacent pairs, thorough: all 306 ordered pairs)"))
    for q in Q2:
        conds.append(Condition(f"arrays:{q}", "pipeline", H, "pipeline", {"qtext": q, "doc": 2}, T,
                               bounds="array document with an object whose members are '0' and '1'; symbolic leaves, inner array length<=2"))
    Q3 = ["$.rows[::2]", "$.rows[::-2]", "$.rows[1::2]", "$.rows[3:0:-2]", "$['1'][::3]", "$['1'][-1::-2]", "$..[::2]"]
    for q in Q3:
        for route in ("sync", "async"):
            conds.append(Condition(f"slices:{route}:{q}", "pipeline", H, "pipeline", {"qtext": q, "doc": 3, "route": route}, T, required=False,
                                   bounds="arrays of 2..4 and 5 symbolic int elements under slices with |step| >= 2; sync and async matching"))
    for q in ["$.*", "$['-1'][*]", "$['01'].*", "$..[?@ > 2]"]:
        conds.append(Condition(f"text-history:{q}", "text-history", H, "text_history", {"qtext": q, "doc": 0}, T, required=False,
                               bounds="the document is one fixed JSON text; symbolic choice of two (equal or adjacent) matches and two operations applied one after "
                                      "the other to the same text, symbolic replacement value (solver-driven enumeration of the choices)"))
    conds.append(Condition("names-leafvalue:$..*", "pipeline", H, "pipeline", {"qtext": "$..*", "doc": 0, "vleaf": "leaf"}, T * 2, required=False,
                           bounds="replacement value of any primitive kind"))
    return Plan(
        conditions=conds,
        explanation=(
            "JSONPathMatch.pointer / JSONPointer.from_match, JSONPatch.test/replace/remove and apply are executed on documents whose "
            "member names look like integers, signed numbers, contain '~' '/' or are empty / non-ASCII, with symbolic leaves and array "
            "lengths: for every match of a catalogue query, `test` with the matched value passes and changes nothing, `replace` and "
            "`remove` through the match's pointer (object and text form) give the document edited at exactly the match's location "
            "(reference: edit a deep copy by the match's parts), and the original document is untouched by matching."),
        assumptions=["member names are concrete (they pass through json.dumps in the selectors)"],
        outside=["the keys selector", "names outside the 18-name pool"],
    )
