"""C19: projection returns exactly the selected values, nothing more, in place."""
from __future__ import annotations

import random
from typing import List

from vlib.driver import Plan
from vlib.xh import Condition

H = "harness/c19.py"

# (match query, relative expressions, spine): selections are disjoint and per-array ascending
CASES = [
    ("$", ["$.a"], "nest1"), ("$", ["$.a[0]", "$.b.a"], "nest1"), ("$", ["$.a[1]", "$.b.b"], "nest1"), ("$", ["$.b.*"], "nest1"),
    ("$", ["$.a[0:2]", "$.b.b"], "nest1"), ("$.b", ["$.a", "$.b"], "nest1"), ("$.a", ["$[0]"], "nest1"), ("$.a", ["$[1]"], "nest1"),
    ("$.a", ["$[*]"], "nest1"), ("$.*", ["$.a", "$[0]"], "nest1"), ("$..*", ["$.a"], "nest1"), ("$", ["$.zz"], "nest1"),
    ("$", ["$[0].a", "$[1].b"], "nest2"), ("$", ["$[1].a", "$[2]"], "nest2"), ("$", ["$[0,2]"], "nest2"), ("$", ["$[1:]"], "nest2"),
    ("$[*]", ["$.a"], "nest2"), ("$[*]", ["$.b"], "nest2"), ("$[1]", ["$.*"], "nest2"), ("$", ["$[*].a"], "nest2"), ("$", ["$[2]"], "nest2"),
    ("$", ["$[0][0]", "$[1][1][0]"], "nest3"), ("$", ["$[1][0]", "$[3]"], "nest3"), ("$[1]", ["$[1]"], "nest3"), ("$[*]", ["$[0]"], "nest3"),
    ("$", ["$[1][1]"], "nest3"), ("$", ["$..[0]"], "arr"), ("$", ["$[1]", "$[3]"], "arr"), ("$", ["$[0]"], "arr"), ("$", ["$[-1]"], "arr"),
    ("$", ["$['0']", "$['-1']"], "numkeys"), ("$", ["$['1']", "$.a[1]"], "numkeys"), ("$", ["$.a[0]", "$['0']"], "numkeys"), ("$.a", ["$[1]"], "numkeys"),
    ("$", ["$.a.a.b", "$.b[1].a"], "deep"), ("$.a", ["$.a.a", "$.b"], "deep"), ("$.b", ["$[0]", "$[1].a"], "deep"), ("$.b", ["$[1]"], "deep"),
    ("$..a", ["$.a"], "deep"), ("$", ["$.b[0]"], "deep"),
    # one element reached through a negative and a non-negative index; digit-named members reached by index selectors
    ("$", ["$[0]", "$[-2]"], "arr"), ("$", ["$[0]", "$[-1]"], "arr"), ("$", ["$[-2].a", "$[1].b"], "nest2"),
    ("$", ["$[0]", "$[1]"], "numkeys"), ("$", ["$[1]", "$.a[0]"], "numkeys"), ("$", ["$[-1]", "$['0']"], "numkeys"),
]


def plan(tier: str, seed: int) -> Plan:
    thorough = tier == "thorough"
    T = 150 if thorough else 50
    conds: List[Condition] = []
    styles = ["relative", "root", "flat"]
    for k, (mq, exprs, spine) in enumerate(CASES):
        for style in (styles if thorough else [styles[k % 3]]):
            conds.append(Condition(f"{style}:{spine}:{mq}:{'+'.join(exprs)}", f"project-{style}", H, "project",
                                   {"match": mq, "exprs": exprs, "style": style, "spine": spine, "maxn": 4 if spine == "arr" else 2,
                                    "leaf": "nbi"}, T, required=False,
                                   bounds=f"spine {spine}: two leaves of kind null|bool|int (so 0, false, null occur as selected values), two int, "
                                          "symbolic array length, member order bit"))
    overlaps = [("$", ["$.a", "$.a[1]"], "nest1"), ("$", ["$.b", "$.b.a"], "nest1"), ("$", ["$[1]", "$[1].a"], "nest2"),
                ("$", ["$.a", "$.a.a.b"], "deep"), ("$", ["$.b", "$.b[1].a"], "deep"), ("$", ["$[1]", "$[1][1][0]"], "nest3"),
                ("$.b", ["$[1]", "$[1].a"], "deep"), ("$", ["$.a[1]", "$.a"], "nest1")]
    for k, (mq, exprs, spine) in enumerate(overlaps):
        for style in (styles if thorough else [styles[k % 2]]):
            conds.append(Condition(f"unchanged:{style}:{spine}:{'+'.join(exprs)}", "unchanged", H, "unchanged",
                                   {"match": mq, "exprs": exprs, "style": style, "spine": spine, "maxn": 2, "leaf": "nbi"}, T, required=False,
                                   bounds="overlapping selections (a container and a node inside it); only 'document unchanged' is asserted"))
    anc = [("$", ["$.xs", "$.xs[1].a"], "wrapobjarr"), ("$", ["$.xs", "$.xs[0].b", "$.xs[1].a"], "wrapobjarr"), ("$", ["$.xs[0:2]", "$.xs[1].b"], "wrapobjarr"),
           ("$", ["$.a", "$.a[1]"], "nest1"), ("$", ["$.b", "$.b.a"], "nest1"), ("$", ["$[1]", "$[1].a"], "nest2"), ("$", ["$.a", "$.a.a.b"], "deep"),
           ("$", ["$.b", "$.b[1].a"], "deep"), ("$", ["$[1]", "$[1][1][0]"], "nest3"), ("$.b", ["$[1]", "$[1].a"], "deep"), ("$", ["$.a", "$.a[0]"], "numkeys")]
    for k, (mq, exprs, spine) in enumerate(anc):
        for style in (["relative", "root"] if thorough else [["relative", "root"][k % 2]]):
            conds.append(Condition(f"ancestor-first:{style}:{spine}:{'+'.join(exprs)}", "ancestor", H, "ancestor_first",
                                   {"match": mq, "exprs": exprs, "style": style, "spine": spine, "maxn": 2, "leaf": "nbi"}, T, required=False,
                                   bounds="a container selected whole, then a node inside it: the projection equals that of the container alone"))
        if ":" in exprs[0]:
            continue  # reversed, the per-array selections would not be ascending (outside the quantifier)
        for style in (["relative", "root"] if thorough else [["root", "relative"][k % 2]]):
            rev = exprs[1:] + exprs[:1]
            conds.append(Condition(f"ancestor-last:{style}:{spine}:{'+'.join(rev)}", "ancestor", H, "ancestor_first",
                                   {"match": mq, "exprs": rev, "anc": len(rev) - 1, "style": style, "spine": spine, "maxn": 2, "leaf": "nbi"}, T, required=False,
                                   bounds="nodes inside a container, then the container selected whole: the projection equals that of the container alone"))
    pool = [("$", ["$.a[0]", "$.b.a"], "nest1"), ("$.a[0]", ["$[0]", "$.a"], "nest1"), ("$.*", ["$.a", "$[0]"], "nest1"), ("$", ["$.b.*"], "nest1"),
            ("$[*]", ["$.a"], "nest2"), ("$", ["$[1].a", "$[2]"], "nest2"), ("$[2]", ["$.a", "$.b[0]"], "nest2"), ("$", ["$[0][0]", "$[1][1][0]"], "nest3"),
            ("$[*]", ["$[0]"], "nest3"), ("$..*", ["$.a"], "deep"), ("$", ["$.a.a.b", "$.b[1].a"], "deep"), ("$.b[*]", ["$.a", "$.k"], "deep"),
            ("$", ["$[0]", "$[1]"], "arr"), ("$[*]", ["$.a", "$[0]", "$.k"], "arr")]
    for k, (mq, exprs, spine) in enumerate(pool):
        for style in (styles if thorough else [styles[k % 3]]):
            conds.append(Condition(f"pool:{style}:{spine}:{mq}:{'+'.join(exprs)}", "project-pool", H, "project_pool",
                                   {"match": mq, "exprs": exprs, "style": style, "spine": spine, "maxn": 2}, T, required=False,
                                   bounds="two leaves (three positions) each one of 9 pooled values ({}, [], {k:{}}, [[]], {a:{},b:[]}, strings that are JSON text, 0): "
                                          "empty containers as selected values, strings as matches"))
    return Plan(
        conditions=conds,
        explanation=(
            "Query.select/_select, _patch_obj and _fix_sparse_arrays are executed symbolically for a catalogue of (match query, relative "
            "queries) under the three projection styles on document spines with symbolic leaves (falsy values included), array lengths and "
            "integer-looking member names: flat = selected values in selection order; relative/root = the value in which every selected "
            "node sits at its (relative / root) location with array indices replaced by their rank and no other leaves; non-container "
            "matches and empty selections yield nothing; the document is unchanged."),
        assumptions=["selections are disjoint and per-array ascending (the property's quantifier)", "selected nodes are located with the library's own finditer (decided by C01/C03)"],
        outside=["overlapping selections", "descending per-array selections", "string leaves other than the pooled ones"],
    )
