"""C03: every match location (path, parts, pointer, parent) identifies exactly that node."""
from __future__ import annotations

import random
from typing import List

from vlib import catalogue as cat
from vlib import oracle
from vlib.driver import Plan
from vlib.xh import Condition

H = "harness/c03.py"
EXTRA = [("$[?@.a]", "nest2"), ("$..[?@.a == 1]", "deep"), ("$[-1]", "arr"), ("$[::-1]", "arr"), ("$[-2:]", "arr"), ("$..[-1]", "nest3"),
         ("$[0,0]", "arr"), ("$['0','1','-1']", "numkeys"), ("$[0,1,-1]", "numkeys"), ("$..*", "numkeys"), ("$.a[?@ > 0]", "nest1"),
         ("$[*][?@]", "nest3"), ("$", "obj2"), ("$..['a','b']", "deep"), ("$.a | $.b", "obj2"), ("$..a & $.*", "nest1")]


def plan(tier: str, seed: int) -> Plan:
    thorough = tier == "thorough"
    rng = random.Random(seed)
    T = 200 if thorough else 60
    conds: List[Condition] = []
    items = [(oracle.query_text(q), s) for q, s in cat.CORE_SELECTOR_QUERIES] + EXTRA
    if thorough:
        sp = ["arr", "obj2", "nest1", "nest2", "nest3", "deep", "numkeys", "objarr"]
        items += [(oracle.query_text(q), rng.choice(sp)) for q in cat.selector_queries(3, rng, 250, 120)]
    else:
        items = items[::2] + EXTRA[:8]
    seen = set()
    for q, s in items:
        if (q, s) in seen:
            continue
        seen.add((q, s))
        conds.append(Condition(f"loc:{s}:{q}", "locations", H, "locations", {"qtext": q, "spine": s, "maxn": 3 if s == "arr" else 2}, T,
                               required=False,
                               bounds=f"spine {s}: two int|str leaves, two int leaves, symbolic array length, presence/order bits; every match checked"))
    for qi in range(6):
        conds.append(Condition(f"names:q{qi}", "names", H, "names", {"qi": qi, "namepool": 43 if thorough else 38}, T * 2, required=False,
                               bounds="member name from a pool of 38 (19 single characters of Sigma + 19 curated two-character names, control characters that need \\u00XX escapes included), concretised "
                                      "(json.dumps / the lexer are C boundaries): solver-driven enumeration"))
    for qi in range(5):
        conds.append(Condition(f"names-async:q{qi}", "names", H, "names", {"qi": qi, "route": "async", "namepool": 43 if thorough else 38}, T * 2, required=False,
                               bounds="as names:q*, the matches obtained through finditer_async (the async twins build locations separately)"))
    return Plan(
        conditions=conds,
        explanation=(
            "Every selector's match construction, canonical_string, JSONPathMatch.pointer, JSONPointer.from_match/_encode/resolve and "
            "compile+evaluate of the reported path are executed for every match of a catalogue query on a symbolic document: the path is a "
            "syntactically valid RFC 9535 2.7 normalized path, evaluating it returns exactly that node (identity), parts / pointer / the "
            "pointer's text form resolve to it, the parent is the match one step shorter, and paths are equal iff nodes are. Member-name "
            "text (quotes, backslash, control characters, '/', '~', non-BMP) is covered by enumeration over Sigma."),
        assumptions=["member names concrete in structural conditions; Sigma enumeration for name text"],
        outside=["names longer than 2 over Sigma", "the keys selector"],
    )
