"""C13: documented non-standard syntax means what the documentation says."""
from __future__ import annotations

from typing import Any, Dict, List

from vlib.driver import Obligation, Plan
from vlib.xh import Condition

H = "harness/c13.py"
S = ["a", "ab", "A", "abc", "b", "a\nb", ""]
# (extension, standard-or-None, ref-or-None, spine, extra params)
PAIRS: List[tuple] = [
    # implicit root / bare names
    ("a", "$.a", None, "obj2", {}), ("a.b", "$.a.b", None, "deep", {}), ("a[0]", "$.a[0]", None, "nest1", {}), ("[a, b]", "$['a','b']", None, "obj2", {}),
    ("$[a]", "$['a']", None, "obj2", {}), ("$[a, b, a]", "$['a','b','a']", None, "obj2", {}), ("$..[a]", "$..['a']", None, "deep", {}),
    ("..a", "$..a", None, "deep", {}), ("[0]", "$[0]", None, "arr", {}), ("*", "$.*", None, "obj2", {}), ("$[?@[a] == 1]", "$[?@['a'] == 1]", None, "objarr", {}),
    ("a.*[?@.a]", "$.a.*[?@.a]", None, "deep", {}),
    # keys selector
    ("$.~", None, "keys-root", "obj2", {}), ("$[~]", None, "keys-root", "obj2", {}), ("$.~", None, "keys-root", "arr", {}), ("$.a.~", None, "keys-a", "deep", {}),
    ("$.a.~", None, "keys-a", "nest1", {}), ("$..~", None, "keys-desc", "deep", {}), ("$..~", None, "keys-desc", "nest2", {}), ("$.~", None, "keys-root", "numkeys", {}),
    # fake root
    ("^[?@.a == 1]", "$[?@.a == 1]", None, "obj2", {"wrap": True}), ("^[?@[0].a]", "$[?@[0].a]", None, "objarr", {"wrap": True}), ("^[0]", "$[0]", None, "obj2", {"wrap": True}),
    ("$.a | ^[?@.a == 1]", None, [["$.a", False], ["$[?@.a == 1]", True]], "obj2", {}), ("^[?@.a == 1] | $.a | ^.*", None, [["$[?@.a == 1]", True], ["$.a", False], ["$.*", True]], "obj2", {}),
    ("$[0] | ^[?@[0].a] | $[1]", None, [["$[0]", False], ["$[?@[0].a]", True], ["$[1]", False]], "objarr", {}),
    ("^.*", "$.*", None, "arr", {"wrap": True}), ("^[?@.a == $.a]", "$[?@.a == $[0].a]", None, "obj2", {"wrap": True}),
    # current key
    ("$[?# == 'a']", None, "key-eq-a", "obj2", {}), ("$[?# > 0]", None, "key-gt-0", "arr", {}), ("$[?# in ['a', 'zz', 0, 2]]", None, "key-in-list", "obj2", {}),
    ("$[?# in ['a', 'zz', 0, 2]]", None, "key-in-list", "arr", {}), ("$[?# > 0]", None, "key-gt-0", "nest2", {}),
    # filter context at depth 1 and 2
    ("$[?@.a == _.k]", None, "ctx-eq", "objarr", {"leaf": "nbi", "ckleaf": "nbi"}), ("$.b[?@ == _.a[1]]", "$.b[?@ == 1]", None, "nest1", {}),
    ("$.*[?@.a == _.o.a]", "$.*[?@.a == 1]", None, "deep", {}), ("$[?@.a[?@ == _.a[1]]]", "$[?@.a[?@ == 1]]", None, "nest1", {}),
    ("$[?@[?@.a == _.o.a]]", "$[?@[?@.a == 1]]", None, "deep", {}),
    ("$[?$[?@.a == _.o.a]]", "$[?$[?@.a == 1]]", None, "objarr", {}), ("$[?_.a[?@ == _.o.a]]", "$[?@ || !@]", None, "arr", {"leaf": "int"}),
    ("$[?_.a[?@ == $[0]]]", "$[?$[0] == 1 || $[0] == _.k]", None, "arr", {"leaf": "int"}), ("$.a[?$.b[?@ == _.o.a]]", "$.a[?$.b[?@ == 1]]", None, "nest1", {}), ("$[?count(_.a.*) == 2 && @.a]", "$[?@.a]", None, "objarr", {}),
    # membership
    ("$[?@.a in [1, 'a', true, null]]", "$[?@.a == 1 || @.a == 'a' || @.a == true || @.a == null]", None, "objarr", {}),
    ("$[?[1, 'a'] contains @.a]", "$[?@.a == 1 || @.a == 'a']", None, "objarr", {}), ("$[?@.a in _.s]", "$[?@.a in 'abc']", None, "objarr", {"strs": S}),
    ("$[?@ contains 'a']", "$[?'a' in @]", None, "nest2", {}), ("$[?'a' in @]", "$[?@.a]", None, "nest2", {"leaf": "int"}),
    ("$[?@.a in _.o]", "$[?@.a == 'a']", None, "objarr", {"strs": S}), ("$..[?@ in [1]]", "$..[?@ == 1]", None, "deep", {"leaf": "nbi"}),
    # regex
    ("$[?@.a =~ /a.*/]", "$[?match(@.a, 'a.*')]", None, "objarr", {"strs": S}), ("$[?@.a =~ /a.*/i]", "$[?match(@.a, '[aA].*')]", None, "objarr", {"strs": S}),
    ("$[?@.a =~ /a.b/s]", "$[?match(@.a, 'a[\\\\s\\\\S]b')]", None, "objarr", {"strs": S}), ("$[?@.a =~ /b/]", "$[?@.a == 'b']", None, "objarr", {"strs": S}),
    ("$[?@.a =~ /a$/m]", "$[?@.a == 'a']", None, "objarr", {"strs": S}),
    # ... in an environment that has compiled the same pattern text under other flags before
    ("$[?@.a =~ /a.*/i]", "$[?match(@.a, '[aA].*')]", None, "objarr", {"strs": S, "prior": ["$[?@.a =~ /a.*/]", "$[?@.b =~ /a.*/s]"]}),
    ("$[?@.a =~ /a.*/]", "$[?match(@.a, 'a.*')]", None, "objarr", {"strs": S, "prior": ["$[?@.a =~ /a.*/i]"]}),
    ("$[?@.a =~ /a.b/]", "$[?match(@.a, 'a.b')]", None, "objarr", {"strs": S, "prior": ["$[?@.a =~ /a.b/s]", "$[?@.a =~ /A.B/i]"]}),
    # operator aliases
    ("$[?@.a <> 1]", "$[?@.a != 1]", None, "objarr", {}), ("$[?@.a == 1 && @.b <> 2]", "$[?@.a == 1 && @.b != 2]", None, "objarr", {"leaf": "int"}),
    ("$[?@.b <> 2 && @.a == 1]", "$[?@.b != 2 && @.a == 1]", None, "objarr", {"leaf": "int"}), ("$[?@.b <> 2 || @.a <> 1]", "$[?@.b != 2 || @.a != 1]", None, "objarr", {"leaf": "int"}),
    ("$[?not @.a <> 1]", "$[?!@.a != 1]", None, "objarr", {"leaf": "int"}), ("$[?@.a in [1] and @.b contains 1 or @.a =~ /a/]", "$[?@.a == 1 && @.b contains 1 || match(@.a, 'a')]", None, "objarr", {}), ("$[?@.a <> @.b]", "$[?@.a != @.b]", None, "objarr", {"leaf": "nbi"}),
    ("$[?@.a and @.b]", "$[?@.a && @.b]", None, "objarr", {}), ("$[?@.a or @.b == 1]", "$[?@.a || @.b == 1]", None, "objarr", {}),
    ("$[?not @.b]", "$[?!@.b]", None, "objarr", {}), ("$[?not (@.a == 1 and @.b) or @.b]", "$[?!(@.a == 1 && @.b) || @.b]", None, "objarr", {}),
    ("$[?@.a == 1 and not @.b or @.a == 2]", "$[?@.a == 1 && !@.b || @.a == 2]", None, "objarr", {"leaf": "int"}),
    # undefined / missing
    ("$[?@.b == undefined]", "$[?!@.b]", None, "objarr", {}), ("$[?@.b != undefined]", "$[?@.b]", None, "objarr", {}), ("$[?@.b == missing]", "$[?!@.b]", None, "objarr", {}),
    ("$[?@.b != missing]", "$[?@.b]", None, "objarr", {}), ("$[?undefined == @.b]", "$[?!@.b]", None, "objarr", {}), ("$..[?@.b != missing]", "$..[?@.b]", None, "deep", {}),
    ("$[?@[?@.a == undefined]]", "$[?@[?!@.a]]", None, "deep", {}),
    # literal aliases
    ("$[?@.a == nil]", "$[?@.a == null]", None, "objarr", {"leaf": "nbi"}), ("$[?@.a == none]", "$[?@.a == null]", None, "objarr", {"leaf": "nbi"}),
    ("$[?@.a == None || @.a == Nil || @.a == Null]", "$[?@.a == null]", None, "objarr", {"leaf": "nbi"}), ("$[?@.a == True]", "$[?@.a == true]", None, "objarr", {"leaf": "nbi"}),
    ("$[?@.a == False]", "$[?@.a == false]", None, "objarr", {"leaf": "nbi"}), ("$[?@.a in [True, False, None]]", "$[?@.a == true || @.a == false || @.a == null]", None, "objarr", {"leaf": "nbi"}),
]


# alias and standard spelling must be accepted / refused alike and compile to one structure
ACCEPT_PAIRS = [
    ("$[?@.* <> 1]", "$[?@.* != 1]"), ("$[?match(@.a, 'a') <> true]", "$[?match(@.a, 'a') != true]"), ("$[?@.a <> 1]", "$[?@.a != 1]"),
    ("$[?not(@.a)]", "$[?!(@.a)]"), ("$[?not (@.a)]", "$[?!(@.a)]"), ("$[?@.a and(@.b)]", "$[?@.a &&(@.b)]"), ("$[?@.a or(@.b)]", "$[?@.a ||(@.b)]"),
    ("$[?@.a and (@.b)]", "$[?@.a && (@.b)]"), ("$[?not(@.a == 1) and not(@.b)]", "$[?!(@.a == 1) && !(@.b)]"),
    ("$[_a]", "$['_a']"), ("_a", "$._a"), ("$[_a, b]", "$['_a', 'b']"), ("_a.b", "$._a.b"), ("$[a_, a_b]", "$['a_', 'a_b']"),
    ("$[?@.a == nil]", "$[?@.a == null]"), ("$[?@.a == None]", "$[?@.a == null]"), ("$[?@.a == True && @.b == False]", "$[?@.a == true && @.b == false]"),
    ("$[?@.a == undefined]", "$[?@.a == missing]"),
]


def accept_obligation(ext: str, std: str) -> Obligation:
    def run() -> Dict[str, Any]:
        import importlib
        import os

        os.environ.setdefault("VERIF_P", "{}")
        from vlib import hs

        h = importlib.import_module("harness.c13")
        del hs.WHY[:]
        rep = {"harness": H, "fn": "same_acceptance", "params": {}, "call": f"same_acceptance({ext!r}, {std!r})"}
        if h.same_acceptance(ext, std):
            return {"status": "discharged", "detail": f"{ext!r} ~ {std!r}"}
        return {"status": "violated", "detail": str(hs.WHY[-1:]), "replay": rep}

    return Obligation(f"accept:{ext}", run, kind="deterministic-compile")


def plan(tier: str, seed: int) -> Plan:
    thorough = tier == "thorough"
    T = 150 if thorough else 60
    conds: List[Condition] = []
    for ext, std, ref, spine, extra in PAIRS:
        params: Dict[str, Any] = {"ext": ext, "std": std, "ref": ref, "spine": spine, "maxn": 2}
        params.update(extra)
        if "strs" in params:
            params["leaf"] = "int"
            params["maxn"] = 1
        params.setdefault("leaf", "leaf")
        conds.append(Condition(f"{spine}:{ext}" + (":after:" + "+".join(params["prior"]) if "prior" in params else ""), "equiv", H, "equiv", params, T, required=False,
                               bounds=f"spine {spine}; two leaves {params['leaf']}" + (" drawn from a string pool" if "strs" in params else "")
                                      + ", two int leaves; filter context {k: symbolic, a: [k, 1], s: 'abc', o: {a: 1}}"))
    return Plan(
        conditions=conds,
        obligations=[accept_obligation(e, st) for e, st in ACCEPT_PAIRS],
        explanation=(
            "Each documented extension is compiled by the live compiler next to its standard spelling (or compared with a reference "
            "written from the documentation) and both are executed symbolically on the same document and filter context: implicit root "
            "and bare names; keys selector (names in order, nothing for non-objects); fake root (document wrapped); current key over "
            "objects and arrays; filter context at nesting depth 1 and 2; in/contains over arrays, strings and object keys; =~ as a full "
            "match with each flag; <>; and/or/not; undefined/missing as (negated) existence; nil/none and capitalised literals. Constructs "
            "are placed in lists, after descendant segments and inside nested filters."),
        assumptions=["regex subjects come from a string pool"],
        outside=["extension constructs in positions not in the 66-pair catalogue"],
    )
