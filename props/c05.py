"""C05: JSON Patch application conforms to RFC 6902 for every document and patch."""
from __future__ import annotations

import random
from typing import Any, Dict, List

from vlib.driver import Plan
from vlib.xh import Condition

H = "harness/c05.py"

TARGETS = {
    "arr-index": ["a", "$i"], "arr-dash": ["a", "-"], "obj-existing": ["b", "c"], "obj-new": ["b", "new"], "obj-digit-name": ["b", 1],
    "top-digit-name": [1], "root": [], "missing-parent": ["zz", "x"], "scalar-parent": ["b", "c", "x"], "nested-arr": ["b", 1, "$j"],
    "arr-in-name": ["a", "x"], "arr-leading-zero": ["a", "01"], "arr-index-str": ["a", "$is"],
}
SOURCES = {
    "arr-index": ["a", "$j"], "obj-member": ["b", "c"], "obj": ["b"], "arr": ["a"], "root": [], "missing": ["zz"], "digit-name": [1],
    "nested": ["b", 1, 0],
}
MOVE_TARGETS = {
    "arr-index": ["a", "$i"], "arr-dash": ["a", "-"], "obj-new": ["b", "new"], "obj-existing": ["b", "c"], "root": [], "own-child": ["b", "x"],
    "child-of-arr": ["a", "$i", "x"], "missing-parent": ["zz", "x"], "nested-arr": ["b", 1, "$i"], "top-new": ["n"],
    "longer-sibling-name": ["ab", "m"], "into-own-value": ["a", "$i", "$j"],
}


def single_ops() -> List[tuple]:
    out = []
    for name, t in TARGETS.items():
        out.append((f"add:{name}", [{"op": "add", "path": t, "value": "$v"}], {}))
        out.append((f"remove:{name}", [{"op": "remove", "path": t}], {}))
        out.append((f"replace:{name}", [{"op": "replace", "path": t, "value": "$v"}], {}))
        out.append((f"test:{name}", [{"op": "test", "path": t, "value": "$v"}], {"leaf": "boolint", "vleaf": "nbi"}))
    for sn, s in SOURCES.items():
        for tn, t in MOVE_TARGETS.items():
            out.append((f"move:{sn}->{tn}", [{"op": "move", "from": s, "path": t}], {}))
            out.append((f"copy:{sn}->{tn}", [{"op": "copy", "from": s, "path": t}], {}))
    out.append(("add:container-value", [{"op": "add", "path": ["a", "$i"], "value": "$vc"}], {}))
    out.append(("test:container", [{"op": "test", "path": ["b"], "value": {"c": "$v", "1": ["$w"]}}], {"leaf": "nbi", "vleaf": "nbi"}))
    out.append(("test:array", [{"op": "test", "path": ["a"], "value": ["$v", "$w"]}], {"leaf": "boolint", "vleaf": "boolint", "maxn": 2}))
    # member names differ (chosen by $i / $j from a pool), values may be null: names matter even when values are null
    out.append(("test:names", [{"op": "add", "path": ["n"], "value": {"$ki": "$v"}}, {"op": "test", "path": ["n"], "value": {"$kj": "$w"}}],
                {"leaf": "int", "vleaf": "nbi", "maxn": 0}))
    out.append(("test:names-nested", [{"op": "add", "path": ["n"], "value": [{"$ki": "$v", "x": 1}]}, {"op": "test", "path": ["n"], "value": [{"$kj": "$v", "x": 1}]}],
                {"leaf": "int", "vleaf": "nbi", "maxn": 0}))
    # array of containers: the destination is resolved after the source has been removed
    for t in (["a", "$i", "x"], ["a", "$i", "-"], ["a", "$i", 0], ["a", "$i", "p"]):
        out.append((f"move:containers->{'/'.join(map(str, t))}", [{"op": "move", "from": ["a", "$j"], "path": t}], {"doc": 1, "maxn": 3}))
        out.append((f"copy:containers->{'/'.join(map(str, t))}", [{"op": "copy", "from": ["a", "$j"], "path": t}], {"doc": 1, "maxn": 3}))
    out.append(("test:str-vs-chars", [{"op": "add", "path": ["n"], "value": "$sv"}, {"op": "test", "path": ["n"], "value": "$cv"}], {"maxn": 1}))
    out.append(("test:chars-vs-str", [{"op": "add", "path": ["n"], "value": {"k": "$cv"}}, {"op": "test", "path": ["n"], "value": {"k": "$sv"}}], {"maxn": 1}))
    out.append(("test:root", [{"op": "test", "path": [], "value": {"a": [], "b": {"c": "$v", "1": ["$w"]}, "1": "$w"}}], {"leaf": "boolint", "vleaf": "boolint", "maxn": 0}))
    return out


def sequences(rng: random.Random, k: int, length: int) -> List[tuple]:
    singles = [o for o in single_ops() if not o[0].startswith("test:")]
    out = []
    for _ in range(k):
        picks = [rng.choice(singles) for _ in range(length)]
        ops = [p[1][0] for p in picks]
        out.append(("seq:" + "+".join(p[0] for p in picks), ops, {}))
    return out


def plan(tier: str, seed: int) -> Plan:
    thorough = tier == "thorough"
    rng = random.Random(seed)
    T = 150 if thorough else 60
    conds: List[Condition] = []
    items = single_ops()
    if not thorough:
        # quick: all add/remove/replace/test singles, a core of move/copy pairs
        keep = [o for o in items if not o[0].startswith(("move:", "copy:"))]
        mc = [o for o in items if o[0].startswith(("move:", "copy:"))]
        core = [o for o in mc if any(s in o[0] for s in ("containers->", "->arr-dash", "->arr-index", "->own-child", "->root", "root->", "->longer-sibling-name", "missing->obj-new",
                                                          "arr-index->obj-new", "obj->top-new", "digit-name->obj-new"))]
        core.sort(key=lambda o: 0 if "containers->" in o[0] else 1)
        items = keep + core[:60]
    items += sequences(rng, 120 if thorough else 10, 2)
    if thorough:
        items += sequences(rng, 80, 3)
    for name, ops, extra in items:
        params: Dict[str, Any] = {"ops": ops, "maxn": 3 if thorough else 2}
        params.update(extra)
        conds.append(Condition(name, name.split(":")[0], H, "apply_ops", params, T, required=False,
                               bounds=f"document {{a: array of length<={params['maxn']}, b: {{c, '1': [..]}}, '1'}} with symbolic leaves; "
                                      "indices $i,$j symbolic in [0, len+2]; values symbolic"))
    twice = [
        ("twice:replace-root-then-edit", [{"op": "replace", "path": [], "value": {"a": ["$v"], "b": {}}}, {"op": "add", "path": ["a", "-"], "value": "$w"}]),
        ("twice:add-root-then-edit", [{"op": "add", "path": [], "value": {"a": [], "b": {"c": "$v"}}}, {"op": "add", "path": ["b", "n"], "value": "$w"}, {"op": "remove", "path": ["b", "c"]}]),
        ("twice:add-container-then-edit", [{"op": "add", "path": ["n"], "value": {"x": ["$v"]}}, {"op": "add", "path": ["n", "x", 0], "value": "$w"}]),
        ("twice:replace-container-then-edit", [{"op": "replace", "path": ["b"], "value": ["$v"]}, {"op": "add", "path": ["b", "-"], "value": "$w"}, {"op": "remove", "path": ["b", 0]}]),
        ("twice:add-then-move", [{"op": "add", "path": ["n"], "value": ["$v", ["$w"]]}, {"op": "move", "from": ["n", 1], "path": ["m"]}, {"op": "add", "path": ["m", "-"], "value": "$v"}]),
    ]
    for name, ops in twice:
        conds.append(Condition(name, "twice", H, "apply_ops", {"ops": ops, "maxn": 1, "twice": True, "deepcopy_ops": True}, T, required=False,
                               bounds="a patch whose container value is edited by its own later operations, applied twice to equal documents"))
    conds.append(Condition("text-twice", "text", H, "text_twice", {}, T, required=False,
                           bounds="4 patches applied twice to one JSON text (array length<=2, symbolic value): each application starts from the text"))
    conds.append(Condition("copy-independence", "copy", H, "copy_independent", {}, T, bounds="3 copy-then-mutate patches on a symbolic source"))
    return Plan(
        conditions=conds,
        explanation=(
            "OpAdd/OpRemove/OpReplace/OpMove/OpCopy/OpTest.apply, JSONPatch.apply and JSONPointer.resolve_parent/is_relative_to are "
            "executed symbolically: one condition per (operation kind x target kind) - array index (symbolic, from 0 to len+2), '-', "
            "object member (existing, new, digit-named), root, missing parent, scalar parent, nested array - on a document with "
            "symbolic array length and leaves; the result (compared as JSON values) or the error kind (patch error / test failure) "
            "must equal an independent RFC 6902 section 4 reference. test is decided with symbolic values of kinds null/bool/int on "
            "both sides (deep, bool != number). Sequences of 2 (thorough 3) operations are sampled from the same catalogue."),
        assumptions=["pointers are passed as token tuples (pointer text is the subject of C04/C14)",
                     "negative indices (documented extension) are outside: indices are >= 0"],
        outside=["operation sequences longer than 3", "documents beyond the fixed spine", "remove of the root is refused by the library (documented)"],
    )
