"""C10: a compiled query's string form recompiles to an equivalent query."""
from __future__ import annotations

import random
from typing import Any, Dict, List

from vlib import catalogue as cat
from vlib import oracle
from vlib.driver import Obligation, Plan
from vlib.xh import Condition

H = "harness/c10.py"

NUMS = [1, 1.0, 100, 100.0, 0.01, -0.5, 10**20, 1e20, "1", -1]
HAND = [
    # negation scope and grouping
    ("$[?!(@.a == 1)]", "objarr", {}), ("$[?!(@.a == 1) && @.b]", "objarr", {}), ("$[?!(@.a && @.b)]", "objarr", {}),
    ("$[?!(@.a || @.b) && @.a]", "objarr", {}), ("$[?(@.a || @.b) && @.a == 1]", "objarr", {}), ("$[?@.a || @.b && @.a == 1]", "objarr", {}),
    ("$[?!@.a]", "objarr", {}), ("$[?!!@.a]", "objarr", {}), ("$[?!(@.a < @.b)]", "objarr", {"leaf": "nbi"}),
    ("$[?not (@.a == 1 or @.b)]", "objarr", {}), ("$[?!(@.a in [1, 2])]", "objarr", {}), ("$[?!(@.a == 1) == false]", "objarr", {}),
    ("$[?(@.a == 1) == (@.b == 1)]", "objarr", {}), ("$[?@.a == 1 == true]", "objarr", {}),
    # literals
    ("$[?@.a == 1.0]", "objarr", {"strs": NUMS}), ("$[?@.a == 1e2]", "objarr", {"strs": NUMS}), ("$[?@.a == 1e-2]", "objarr", {"strs": NUMS}),
    ("$[?@.a == -0.5]", "objarr", {"strs": NUMS}), ("$[?@.a < 1.5e0]", "objarr", {"strs": NUMS}),
    ("$[?@.a == 100000000000000000000]", "objarr", {"strs": NUMS}), ("$[?@.a == 1E+2]", "objarr", {"strs": NUMS}), ("$[?@.a == -1]", "objarr", {}),
    ("$[?@.a == true || @.a == false || @.a == null]", "objarr", {"leaf": "nbi"}),
    ("$[?@.a == 'it\\'s']", "objarr", {"strs": ["it's", "its", 'it"s']}), ('$[?@.a == "say \\"hi\\""]', "objarr", {"strs": ['say "hi"', "say hi"]}),
    ("$[?@.a == 'back\\\\slash']", "objarr", {"strs": ["back\\slash", "backslash", "back\\\\slash"]}),
    ("$[?@.a == 'tab\\there']", "objarr", {"strs": ["tab\there", "tabthere", "tab\\there"]}),
    ("$[?@.a == '\\u00e9']", "objarr", {"strs": ["é", "e", "\\u00e9"]}), ("$[?@.a == 'a\\nb']", "objarr", {"strs": ["a\nb", "anb"]}),
    ("$[?@.a == \"'\"]", "objarr", {"strs": ["'", '"', "\\'"]}), ("$[?@.a == '\"']", "objarr", {"strs": ["'", '"', '\\"']}),
    ("$['it\\'s']", "obj2", {}), ('$["a\\"b", \'a\']', "obj2", {}), ("$['\\\\']", "obj2", {}), ("$['a', 'b\\u0001']", "obj2", {}),
    # regex literals and flags
    ("$[?@.a =~ /a.*/]", "objarr", {"strs": ["a", "ab", "A", "b\na"]}), ("$[?@.a =~ /a.*/i]", "objarr", {"strs": ["a", "ab", "A", "Ab"]}),
    ("$[?@.a =~ /^a$/m]", "objarr", {"strs": ["a", "a\nb", "b\na"]}), ("$[?@.a =~ /a.b/s]", "objarr", {"strs": ["a\nb", "axb", "ab"]}),
    ("$[?@.a =~ /\\w/a]", "objarr", {"strs": ["a", "é", "_"]}), ("$[?@.a =~ /a\\\\/]", "objarr", {"strs": ["a\\", "a", "a\\\\"]}),
    ("$[?@.a =~ /a/ims]", "objarr", {"strs": ["a", "A"]}),
    ("$[?match(@.a, 'a.*')]", "objarr", {"strs": ["a", "ab", "b"]}), ("$[?search(@.a, \"b\\\\.\")]", "objarr", {"strs": ["ab.", "ab", "b."]}),
    # non-standard identifiers
    ("^[?@.a]", "obj2", {}), ("^[?@[0].a == 1]", "objarr", {}), ("^[0].a", "obj2", {}), ("$[?^[0].a == @.a]", "objarr", {}), ("^..a", "nest1", {}),
    ("$[?# == 0]", "objarr", {}), ("$[?# == 'a']", "obj2", {}), ("$[?@.a == _.k]", "objarr", {}), ("$[?_.a[0] == @.a]", "objarr", {}),
    ("$[?@.a in _.a]", "objarr", {}), ("$.~", "obj2", {}), ("$[~, 'a']", "obj2", {}), ("$..~", "nest1", {}), ("$.*.~", "nest1", {}),
    ("$[?@.a == undefined]", "objarr", {}), ("$[?@.b != missing]", "objarr", {}), ("$[?@.a <> 1]", "objarr", {}),
    ("$[?@.a contains 1]", "nest2", {}), ("$[?@.b contains (@.a < 2)]", "objarr", {"leaf": "boolint"}), ("$[?[true, false] contains (@.a == 1)]", "objarr", {"leaf": "boolint"}),
    ("$[?(@.a == 1) in [true]]", "objarr", {"leaf": "boolint"}), ("$[?@.b in (1 == 1)]", "objarr", {"leaf": "boolint"}), ("$[?[false] contains (@.a =~ /a/)]", "objarr", {"strs": ["a", "b"]}), ("$[?'a' in @]", "nest2", {}), ("$[?@.a == nil || @.a == None]", "objarr", {"leaf": "nbi"}),
    ("a.b", "nest1", {}), ("$[a, b]", "obj2", {}), ("$.a[0:2:1]", "nest1", {}), ("$[0::-1]", "arr", {}), ("$[:0:-1]", "arr", {}), ("$[0:0]", "arr", {}), ("$[::0]", "arr", {}),
    ("$[?(!(@.a == 1)) == true]", "objarr", {}), ("$[?!((@.a == 1) == (@.b == 2))]", "objarr", {"leaf": "int"}), ("$[?!((!@.a) == true)]", "objarr", {}),
    ("$[?@.a == 1.0e16]", "objarr", {"strs": [10**16, 1e16, 1, "1e16"]}), ("$[?@.a == 1.0e20]", "objarr", {"strs": [10**20, 1e20, 100.0, 1e2]}),
    ("$[?@.a == 2.5e30]", "objarr", {"strs": [2.5e30, 2.5e3, 2500]}), ("$[?@.a == 1e-10]", "objarr", {"strs": [1e-10, 0.1, 1e-1]}),
    ("$[?@.a == 1.0e100 || @.a in [1.0e20, 1e-10]]", "objarr", {"strs": [1e100, 10.0, 1e20, 1e-10, 100.0]}), ("$[?@.a =~ /k/ai]", "objarr", {"strs": ["k", "K", "\u212a"]}),
    ("$[?@.a =~ /\\w+/a]", "objarr", {"strs": ["ab", "é", "aé"]}), ("$.items[?^[0].a == @.b]", "objarr", {}), ("$.a[::-1]", "nest1", {}), ("$.a[:1]", "nest1", {}),
    ("$..[?@.a == 1].b", "deep", {}), ("$[?@.a][?@ == 1]", "nest2", {}), ("$[?@.xs[?@.a == $.k]]", "objarr", {}),
    ("$[?length(@.a) == 1 && count(@.*) > 1]", "objarr", {}), ("$[?value(@..a) == 1]", "nest2", {}),
    ("$[?typeof(@.a) == 'number']", "objarr", {}), ("$[?isinstance(@.a, 'string')]", "objarr", {}),
    # compound
    ("$.a | $.b", "obj2", {}), ("$.a & $.b", "obj2", {"leaf": "boolint"}), ("$.a | $.b & $.a", "obj2", {"leaf": "boolint"}),
    ("$..a | ^[?@.a] & $.*", "obj2", {"leaf": "boolint"}), ("$.a|$.b|$.a", "obj2", {}), ("^.* & $", "obj2", {}),
]


def fixed_point_obligation(q: str) -> Obligation:
    def run() -> Dict[str, Any]:
        import jsonpath

        env = jsonpath.JSONPathEnvironment()
        rep = {"harness": H, "fn": "fixed_point", "params": {"qtext": "$"}, "call": f"fixed_point({q!r})"}
        a = env.compile(q)  # the catalogue only contains accepted queries; an error here is a harness error
        s = str(a)
        try:
            b = env.compile(s)
        except Exception as e:  # noqa: BLE001
            return {"status": "violated", "detail": f"str(compile({q!r})) = {s!r} does not compile: {type(e).__name__}: {e}", "replay": rep}
        if str(b) != s:
            return {"status": "violated", "detail": f"{q!r}: {s!r} -> {str(b)!r} is not a fixed point", "replay": rep}
        return {"status": "discharged", "detail": f"{q!r} -> {s!r} compiles, fixed point"}

    return Obligation(f"fixpoint:{q}", run, kind="deterministic-compile")


def plan(tier: str, seed: int) -> Plan:
    thorough = tier == "thorough"
    rng = random.Random(seed)
    T = 150 if thorough else 40
    items = list(HAND)
    trees = list(cat.CORE_LOGICAL) + cat.sample_logical(rng, 400 if thorough else 6, 3)
    for t in trees:
        items.append((oracle.query_text(cat.fq(t)), "objarr", {"leaf": "int"}))
    sel = list(cat.CORE_SELECTOR_QUERIES)
    if thorough:
        sel += [(q, rng.choice(["nest1", "nest2", "nest3", "deep", "numkeys"])) for q in cat.selector_queries(3, rng, 200, 100)]
    else:
        sel = sel[::3]
    for q, s in sel:
        for quote, sp, sh in ((("'", "", True),) if not thorough else (("'", "", True), ('"', " ", False))):
            items.append((oracle.query_text(q, "$", quote, sp, sh), s, {"leaf": "intstr"}))
    conds: List[Condition] = []
    obls: List[Obligation] = []
    seen = set()
    for q, s, extra in items:
        if (q, s) in seen:
            continue
        seen.add((q, s))
        params = {"qtext": q, "spine": s, "maxn": 2}
        params.update(extra)
        if "strs" in params:
            params["leaf"] = "int"
            params["maxn"] = 1  # only the pooled leaves are candidates (no symbolic int meets a float or a regex)
        conds.append(Condition(f"rt:{s}:{q}", "roundtrip", H, "roundtrip", params, T, required=False,
                               bounds=f"spine {s}; leaves {params.get('leaf', 'intstr')}" + (" drawn from a string pool" if "strs" in params else "")
                                      + "; filter context with a symbolic int"))
        obls.append(fixed_point_obligation(q))
    return Plan(
        conditions=conds,
        obligations=obls,
        explanation=(
            "For each catalogue query q (standard spellings, logical trees, literals of every kind, regex flags, non-standard "
            "identifiers, compound queries) the live compiler produces A = compile(q) and B = compile(str(A)); a deterministic "
            "obligation checks that str(A) compiles and is a fixed point; then JSONPath/CompoundJSONPath.finditer of A and B are "
            "executed symbolically on the same document and filter context and must return the same (path, value) sequences or "
            "the same error class."),
        assumptions=["query text is a concrete catalogue (the lexer is a C regex the engine cannot execute symbolically)",
                     "string/regex conditions draw subject strings from small pools"],
        outside=["fuzzed accepted strings", "queries outside the catalogue's shapes"],
    )
