"""C17: renaming the environment's identifier tokens never changes what a query means."""
from __future__ import annotations

import random
from typing import Any, Dict, List

from vlib.driver import Obligation, Plan
from vlib.xh import Condition

H = "harness/c17.py"
TEMPLATES = [
    ("{R}.a[?{S} == {R}.b.a]", "nest1"), ("{R}[?{K} == 'a' || {K} == 0]", "obj2"), ("{R}[?{K} > 0 && {S}.a]", "objarr"),
    ("{R}[?{S}.a == {C}.k]", "objarr"), ("{R}.{Y}", "obj2"), ("{R}[{Y}]", "numkeys"), ("{R}..{Y}", "nest1"), ("{F}[?{S}.a]", "obj2"),
    ("{F}[?{S}[0].a == 1]", "objarr"), ("{R}.a {U} {R}.b", "obj2"), ("{R}.a {I} {R}.b", "obj2"), ("{R}.* {I} {R}.a {U} {R}.b", "obj2"),
    ("{R}[?{S}[?{S} == {R}.b.a && {K} == 0]]", "nest1"), ("{R}[?count({S}.*) > 1 && {S}.a in {C}.a]", "objarr"),
    ("{R}[?{S}.a == {F}[0][0].a]", "objarr"), ("{R}..[?{K} == 'a' && {S} == {C}.k]", "deep"), ("{F}..{Y} {U} {R}[?{S}.a == {K}]", "numkeys"),
    ("{R}[?!{S}.b && {C}.k == {C}.a[0]]", "objarr"), ("{R}", "obj2"), ("{R}[?{S}]", "arr"),
]
# pool of spellings (symbols that do not collide with other JSONPath syntax); prefix-related pairs included
CONFIGS = [
    {"R": "$$", "S": "@@"}, {"K": "##", "C": "__"}, {"Y": "~~", "F": "^^"}, {"U": "%", "I": ";"}, {"R": "%", "S": "%%"},
    {"R": "$", "F": "$$"}, {"S": "@", "K": "@#"}, {"C": "`", "Y": "`~"},
    {"R": "%", "S": ";", "K": "`", "C": "{", "Y": "}", "F": "%%", "U": "%;", "I": ";;"},
    # prefix-related in the other direction, and pairs / chains of multi-character spellings
    {"U": "%%", "I": "%"}, {"F": "%", "R": "%%"}, {"S": "%%", "K": "%%+"}, {"R": "%%", "F": "%%^"}, {"K": "##", "Y": "##~", "C": "###"},
    # a name-like spelling that is the prefix of a longer one continuing with punctuation
    {"K": "_#"}, {"C": "c", "K": "c#"},
    {"R": "$r", "S": "$s", "K": "$k", "C": "$c"}, {"F": "^", "Y": "^~"}, {"R": "$$$", "S": "$$", "K": "$"}, {"K": "#k#"}, {"C": "%"},
    {"U": "%%", "I": "%"}, {"S": "@", "C": "@_", "K": "@#", "Y": "@~"}, {"U": "`", "I": "``"}, {"R": "{", "F": "{{", "S": "}"},
]


HISTORY: List[Any] = []  # (tokens, template) pairs already exercised in this process, in order


def structure_obligation(tokens: Dict[str, str], template: str) -> Obligation:
    def run() -> Dict[str, Any]:
        import importlib
        import os

        os.environ["VERIF_P"] = "{}"
        from vlib import hs

        h = importlib.import_module("harness.c17")
        # replay = the same sequence of environments in a fresh process (one earlier use per distinct assignment)
        seen, hist = set(), []
        for tk, tp in HISTORY:
            key = repr(sorted(tk.items()))
            if key not in seen and tk != tokens:
                seen.add(key)
                hist.append([tk, tp])
        hist.append([tokens, template])
        rep = {"harness": H, "fn": "structure_history", "params": {}, "call": f"structure_history({hist!r})"}
        HISTORY.append((tokens, template))
        del hs.WHY[:]
        try:
            okay = h.structure(tokens, template)
        except Exception as e:  # noqa: BLE001
            return {"status": "violated", "detail": f"{tokens} {template}: {type(e).__name__}: {e}", "replay": rep}
        if okay:
            return {"status": "discharged", "detail": f"{template} under {tokens}"}
        return {"status": "violated", "detail": f"{tokens} {template}: {hs.WHY[-1:]}", "replay": rep}

    return Obligation(f"structure:{'/'.join(f'{k}={v}' for k, v in tokens.items())}:{template}", run, kind="deterministic-compile")


def plan(tier: str, seed: int) -> Plan:
    thorough = tier == "thorough"
    rng = random.Random(seed)
    T = 150 if thorough else 45
    conds: List[Condition] = []
    obls: List[Obligation] = []
    configs = CONFIGS if thorough else CONFIGS[:16]
    for ci, tokens in enumerate(configs):
        used = [t for t in TEMPLATES if any("{" + k + "}" in t[0] for k in tokens)]
        # templates that use more of the renamed identifiers (and nest them in filters) come first
        used.sort(key=lambda t: (-sum(1 for k in tokens if "{" + k + "}" in t[0]), -t[0].count("?")))
        rest = [t for t in TEMPLATES if t not in used]
        chosen = used if thorough else used[:4]
        chosen = chosen + (rest if thorough else rest[:1])
        for template, spine in chosen:
            obls.append(structure_obligation(tokens, template))
            conds.append(Condition(f"meaning:{ci}:{template}", "meaning", H, "meaning", {"tokens": tokens, "template": template, "spine": spine, "maxn": 1 if template.count("?") > 1 else 2}, T * (2 if template.count("?") > 1 else 1),
                                   required=False,
                                   bounds=f"token assignment {tokens}; spine {spine} with two null|bool|int leaves, two int leaves, symbolic length/presence; "
                                          "filter context with a symbolic int"))
    return Plan(
        conditions=conds,
        obligations=obls,
        explanation=(
            "For concrete assignments of multi-character and prefix-related spellings to the eight configurable identifiers, a query "
            "template using the identifiers is rendered in custom and default spellings and compiled by the live lexer/parser of a "
            "subclassed environment: deterministically, both compile to the same structure and the custom query's string form "
            "recompiles in that environment to the same structure and is a fixed point; symbolically, the custom query, the default "
            "query and the recompiled string form return the same matches on a symbolic document and filter context."),
        assumptions=["token assignments are concrete (they are compiled into the lexer's regular expression)"],
        outside=["spellings that collide with other JSONPath syntax", "assignments outside the 25-configuration pool"],
    )
