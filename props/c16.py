"""C16: Relative JSON Pointers are parsed, printed and applied per the draft."""
from __future__ import annotations

from typing import Any, Dict, List

from vlib.driver import Obligation, Plan
from vlib.xh import Condition

H = "harness/c16.py"


def lane_r_prefix() -> Obligation:
    def run() -> Dict[str, Any]:
        import z3

        from jsonpath import pointer as ptr
        from jsonpath.exceptions import JSONPointerError, RelativeJSONPointerError
        from vlib import rx

        pat = ptr.RE_RELATIVE_POINTER.pattern
        origin = rx.to_z3(rx.group_pattern(pat, "ORIGIN"))
        index_g = rx.to_z3(rx.group_pattern(pat, "INDEX_G"))
        live = z3.Concat(origin, z3.Option(index_g))
        nn = z3.Union(rx.lit("0"), z3.Concat(rx.D19, z3.Star(rx.D09)))
        nonzero = z3.Concat(rx.D19, z3.Star(rx.D09))
        draft = z3.Concat(nn, z3.Option(z3.Concat(rx.chars("+-"), nonzero)))

        def screen(w: str):
            try:
                r = ptr.RelativeJSONPointer(w)
            except (RelativeJSONPointerError, JSONPointerError) as e:
                return f"RelativeJSONPointer({w!r}) is rejected: {type(e).__name__}"
            if str(r) != w:
                return f"RelativeJSONPointer({w!r}) prints as {str(r)!r}"
            return None

        res = rx.difference_witnesses(draft, live, screen, max_shapes=60)
        if res["status"] == "violated":
            res["replay"] = {"harness": H, "fn": "accepts_prefix", "params": {}, "call": f"accepts_prefix({res['witness']!r})"}
        return res

    return Obligation("R:draft-prefix-in-live-pattern", run, kind="z3-regex",
                      note="L(non-negative-integer [(+|-) positive-integer]) is inside L(ORIGIN INDEX_G?) of the live RE_RELATIVE_POINTER")


def plan(tier: str, seed: int) -> Plan:
    thorough = tier == "thorough"
    T = 200 if thorough else 60
    conds: List[Condition] = []
    for b in range(7):
        for viastr in (False, True):
            ue = (b + int(viastr)) % 2 == 0
            bk = (b + 2 * int(viastr)) % 3
            for bk in ([0, 1, 2] if thorough else [bk]):
              conds.append(Condition(f"apply:base={b}:viastr={viastr}:ue={ue}:basekind={bk}", "apply", H, "apply_relative",
                                   {"unicode_escape": ue, "suffixes": 12 if thorough else 9, "offsets": 10 if thorough else 8, "basekind": bk,
                                    "lasts": 6 if thorough else 3, "base": b, "viastr": viastr, "maxsteps": 4 if thorough else 2}, T * 2,
                                   required=False,
                                   bounds="base shape %d with a final index from a pool, steps 0..%d, offsets {0,+-1,+-2,+-10,+-12,..}, suffixes incl. '#', "
                                          "escaped and non-ASCII tokens; via %s (enumeration: text is rendered from the integers)"
                                          % (b, 4 if thorough else 2, "JSONPointer.to(text)" if viastr else "RelativeJSONPointer.to")))
    conds.append(Condition("tokens-once", "tokens", H, "tokens_once", {}, T, required=False,
                           bounds="base built from 6 tokens containing a backslash or a percent sign; steps 0..2, offsets {0,+1,-1}; decoding options symbolic"))
    return Plan(
        conditions=conds,
        obligations=[lane_r_prefix()],
        explanation=(
            "RelativeJSONPointer.__init__/_parse/_zero_or_positive/__str__/to and JSONPointer.to are executed on relative pointer text "
            "rendered from (steps, offset, suffix) and a base pointer with a final array index: parse-print identity, the result equals "
            "the draft's definition (trailing tokens removed, offset added to the final index, suffix appended or key marker set), the "
            "three forbidden applications raise a relative-pointer error. Lane R (z3): the draft's prefix grammar (steps and a signed "
            "offset of any number of digits) is inside the language of the live RE_RELATIVE_POINTER groups."),
        assumptions=["the text passes through a C regex and int(): steps/offset/suffix come from pools (solver-driven enumeration)",
                     "an offset applied to a final token that is not an array index is outside the property"],
        outside=["bases deeper than 3 tokens", "steps > 4"],
    )
