"""C08: the async API returns exactly what the sync API returns."""
from __future__ import annotations

import random
from typing import List

from vlib import catalogue as cat
from vlib import oracle
from vlib.driver import Plan
from vlib.xh import Condition

H = "harness/c08.py"

STANDARD = [
    ("$.a.*", "obj2"), ("$.*", "nest1"), ("$..*", "nest1"), ("$..*", "nest3"), ("$..a", "deep"), ("$..[0]", "nest3"),
    ("$.a[1:]", "nest1"), ("$..[::-1]", "nest3"), ("$[0,1]['a','b']", "nest2"), ("$.*.*", "deep"), ("$..*.*", "nest2"),
    ("$.a[?@ > 0]", "nest1"), ("$[?@.a]", "nest2"), ("$[?@.a == 1 || @.b]", "objarr"), ("$..[?@.a < 2]", "deep"),
    ("$[?length(@.a) == 1]", "objarr"), ("$[?count(@.*) > 1]", "objarr"), ("$[?match(@.a, 'a.*')]", "objarr"),
    ("$[?value(@..a) == 1]", "nest2"), ("$[?!@.b && @.a != $[0].a]", "objarr"), ("$.a[?@ == $.b.a]", "nest1"),
    ("$[?@[?@ == 1]]", "nest3"), ("$[*][?@]", "nest3"), ("$.b[?@ == 1]", "nest1"),
    ("$.items[?@.xs[?@.a == $.k]]", "nestk"), ("$.items[?@.xs[?@.a == $.k && $.items[0].k == @.a]]", "nestk"), ("$..[?@.xs[?@.a == $.k]]", "nestk"),
    ("$[?@ > 0]", "quotekeys"), ("$[?@]", "quotekeys"), ("$..[?@ == 1]", "quotekeys"), ("$.*", "quotekeys"), ("$..*", "quotekeys"),
    ("$[-1]", "arr"), ("$[-3]", "arr"), ("$[0,-9,1]", "arr"), ("$[?@[-2] == 1]", "nest3"), ("$..[-2]", "nest3"), ("$[-1:]", "arr"),
    ("$[::0]", "arr"), ("$..[1:3:0]", "nest3"), ("$.a[0:2:0, 0]", "nest1"), ("$[?@[::0]]", "nest3"), ("$[0::-1]", "arr"),
]
EXTENDED = [
    ("$.~", "obj2"), ("$..~", "nest1"), ("$[~]", "numkeys"), ("$.b.~", "nest1"), ("^[?@.a]", "obj2"), ("^[?@[0].a == 1]", "objarr"),
    ("$[?# == 'a']", "obj2"), ("$[?# > 0]", "arr"), ("$.a[?# == 0 || @ == _.k]", "nest1"), ("$[?@.a == _.k]", "objarr"),
    ("$[?@.a in [1, 'a']]", "objarr"), ("$[?'a' in @]", "nest2"), ("$[?@ contains 'a']", "nest2"), ("$[?@.a in _.a]", "objarr"),
    ("$[?@.a =~ /a.*/i]", "objarr"), ("$[?@.a <> 1]", "objarr"), ("$[?@.a and not @.b]", "objarr"), ("$[?@.a == undefined]", "objarr"),
    ("$[?@.b != missing or @.a == nil]", "objarr"), ("a.*", "obj2"), ("$[a, b]", "obj2"), ("$[?typeof(@.a) == 'number']", "objarr"),
    ("$[?$[?@.a == _.k]]", "objarr"), ("$.xs[?@.a == value($.xs[?@.b == _.k].a)]", "wrapobjarr"), ("$.items[?@.xs[?$.items[?@.k == _.k]]]", "nestk"),
    ("$[?count($[?@.a == _.k]) > #]", "objarr"),
    ("$[?isinstance(@.a, 'string')]", "objarr"), ("$[?@.a == True || @.a == None]", "objarr"), ("$.*[?@.a in $.b]", "deep"),
]
COMPOUND = [
    ("$.a | $.b", "obj2"), ("$.a & $.b", "obj2"), ("$..a | $..b", "deep"), ("$.* & $..a", "nest1"), ("$[0] | $[1] | $[0]", "arr"),
    ("$.a & $.b & $.a", "obj2"), ("$.a | $.b & $.a", "obj2"), ("$.* & $.* | $.a", "obj2"), ("$.a.* | $.b.*", "nest1"),
    ("$[?@ > 1] & $[?@ < 3]", "arr"),
]


def plan(tier: str, seed: int) -> Plan:
    thorough = tier == "thorough"
    rng = random.Random(seed)
    T = 150 if thorough else 40
    conds: List[Condition] = []
    items = [(q, s, "std") for q, s in STANDARD] + [(q, s, "ext") for q, s in EXTENDED] + [(q, s, "cmp") for q, s in COMPOUND]
    if thorough:
        spn = ["arr", "obj2", "nest1", "nest2", "nest3", "deep", "objarr", "numkeys"]
        extra = []
        for q, s, fam in items:
            for s2 in rng.sample(spn, 3):
                if s2 != s:
                    extra.append((q, s2, fam))
        for q in cat.selector_queries(3, rng, 150, 80):
            extra.append((oracle.query_text(q), rng.choice(spn), "gen"))
        items += extra
    seen = set()
    for q, s, fam in items:
        if (q, s) in seen:
            continue
        seen.add((q, s))
        for rot in ([0] if not thorough else [0, 1, 2, 3]):
            rx = any(t in q for t in ("match(", "search(", "=~"))  # regex on a symbolic string cannot be exhausted
            conds.append(Condition(f"{fam}:{s}:{q}:r{rot}", f"async-{fam}", H, "async_eq",
                                   {"qtext": q, "spine": s, "leaf": "nbi" if rx else "leaf", "leaf2": "int" if rx else "intstr",
                                    "maxn": 2, "rot": rot}, T,
                                   bounds=f"spine {s}; leaves: one of None/bool/int/str, one int|str, two int (rotated by {rot}); "
                                          "array length<=2; 3 presence/order bits"))
    # async item getter
    getter_qs = [("$..*", "nest1"), ("$.a[0]", "nest1"), ("$[?@.a == 1]", "objarr"), ("$[0,1]['a','b']", "nest2"),
                 ("$.a[1:]", "nest1"), ("$..[?@.a]", "deep")]
    for q, s in getter_qs:
        for g in ("async", "suspend"):
            conds.append(Condition(f"getter-{g}:{s}:{q}", "getter", H, "async_eq",
                                   {"qtext": q, "spine": s, "leaf": "intstr", "getter": g}, T,
                                   bounds="documents are Mapping/Sequence classes with __getitem_async__ "
                                          + ("that suspends once per call" if g == "suspend" else "completing immediately")))
    # schedules
    for q, s in [("$..*", "nest1"), ("$[?@.a == $[0].a]", "objarr"), ("$.a.* | $.b.*", "nest1"), ("$[?@.a == _.k]", "objarr"),
                 ("$.a[?@ == $.b.a]", "nest1"), ("$[?count($[?@.a == 1]) > 0 && @.a]", "objarr")]:
        for k in ([2, 4] if not thorough else [2, 4, 6]):
            conds.append(Condition(f"sched{k}:{s}:{q}", "schedule", H, "schedule",
                                   {"qtext": q, "spine": s, "leaf": "int", "sched": k, "maxn": 2}, T * 2, required=False,
                                   bounds=f"two async evaluations interleaved under {k} symbolic scheduling choices"))
    for q, s in [("$[?@.a == _.k]", "objarr"), ("$[?@.a == $[0].a]", "objarr"), ("$[?$[?@.a == _.k]]", "objarr"), ("$[?count($[?@.a == 1]) > 0 && @.a]", "objarr")]:
        conds.append(Condition(f"reuse:{s}:{q}", "reuse", H, "reuse", {"qtext": q, "spine": s, "leaf": "int", "leaf2": "int", "maxn": 2}, T * 2, required=False,
                               bounds="one compiled query awaited twice on one document object: second filter context, optional in-place edit between"))
    for q, s in [("$.a | $.b", "obj2"), ("$..* & $.a.*", "nest1"), ("$[?@.a == $[0].a]", "objarr"), ("$..*", "nest1")] + (
            [("$.a | $.b | $.a", "obj2"), ("$[0] | $[1]", "arr"), ("$..a", "deep")] if thorough else []):
        conds.append(Condition(f"forms:{s}:{q}", "forms", H, "forms", {"qtext": q, "spine": s, "maxn": 1}, T * 2, required=False,
                               bounds="document given as JSON text, text file and binary file (two leaves from a pool of 4 values: json.dumps "
                                      "concretises); findall/finditer and their async twins agree with evaluation of the parsed document"))
    return Plan(
        conditions=conds,
        explanation=(
            "Every resolve_async / evaluate_async twin and JSONPath/CompoundJSONPath.finditer_async/findall_async are executed "
            "symbolically next to their sync counterparts on the same symbolic document (leaf kinds incl. strings and scalars in "
            "container positions, array lengths, member presence/order): results must agree in values (identity for containers), "
            "order, normalized paths, parts, and exception class. Coroutines are driven without an event loop (coro.send), "
            "the async item getter is exercised through Mapping/Sequence classes, and two evaluations are interleaved under "
            "symbolic scheduling booleans. Queries: a catalogue of standard, extended and compound queries."),
        assumptions=["no event loop: coroutines are driven by send(None); suspension only inside the async item getter stub"],
        outside=["real event loops / more than two concurrent tasks", "schedules longer than the stated number of choices"],
    )
