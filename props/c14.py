"""C14: JSON Pointer text, tokens and navigation operations are mutually consistent."""
from __future__ import annotations

from typing import List

from vlib.driver import Plan
from vlib.xh import Condition

H = "harness/c14.py"


def plan(tier: str, seed: int) -> Plan:
    thorough = tier == "thorough"
    T = 200 if thorough else 60
    conds: List[Condition] = []
    for ms in ([1, 2, 3, 4] if thorough else [1, 2]):
        conds.append(Condition(f"parse-print-text:len{ms}", "text", H, "parse_print_text", {"maxs": ms}, T * (1 if ms > 1 and not thorough else 2), required=(ms == 1),
                               bounds=f"two symbolic pointer strings, len<={ms}, RFC 6901 syntax, no backslash, escape decoding off"))
    sg = 20 if thorough else 9
    for ue in (False, True):
        for nt in (1, 2):
            conds.append(Condition(f"tokens-sigma:ue={ue}:nt={nt}", "tokens", H, "tokens_sigma",
                                   {"maxs": 2, "unicode_escape": ue, "sigma": sg, "nt": nt, "second": 5 if thorough else 3}, T * 3,
                                   required=False,
                                   bounds=f"{nt} token(s); first token <=2 characters over the first {sg} of Sigma, second from a pool (enumeration)"))
        conds.append(Condition(f"navigation:ue={ue}", "nav", H, "navigation", {"unicode_escape": ue, "pieces": 18 if thorough else 14}, T * 2,
                               bounds="7 base pointers x escaped tokens from a pool of 16 (~0 ~1 digits signs blanks # - empty non-ASCII), join and /"))
        conds.append(Condition(f"chains:ue={ue}", "nav", H, "root_and_chains", {"unicode_escape": ue, "pieces": 18 if thorough else 14}, T * 2,
                               bounds="join/join/parent/parent chains; parent of the root"))
    return Plan(
        conditions=conds,
        explanation=(
            "JSONPointer._parse/_encode/_index/from_parts/parent/__truediv__/join/is_relative_to/__eq__/__hash__ are executed: "
            "parse-print identity and equality-iff-token-sequences-equal on symbolic RFC 6901 text (escape decoding off); token lists "
            "over Sigma through from_parts, printing, re-parsing and comparison (decoding on and off); p/t and p.join(t) with t in "
            "escaped form: spelling, parent, is_relative_to, and resolution equal to resolve-then-step on a document built around "
            "the location; chains of join/parent; a part with a leading slash replaces."),
        assumptions=["with escape decoding (always on in / and join) the codec is a C boundary: tokens come from pools (enumeration)"],
        outside=["pointer text longer than 4 / tokens longer than 2 over Sigma", "integers beyond the index limit"],
    )
