"""C06 harness: only the documented error families ever escape; every call terminates."""
from __future__ import annotations

from typing import Any, Dict, List, Optional, Union

import jsonpath
from jsonpath import JSONPatch, JSONPathEnvironment, JSONPointer, RelativeJSONPointer
from jsonpath.exceptions import (
    JSONPatchError,
    JSONPointerError,
    JSONPointerResolutionError,
    RelativeJSONPointerError,
)

from vlib import spines
from vlib.hs import Leaf, P, alist, drive, kf, ok, pick, small, why

ENV = JSONPathEnvironment(well_typed=P.get("well_typed", True))
IS = Union[int, str]
QTEXT = P.get("qtext", "$[?@.a in @.b]")
COMPILED = ENV.compile(QTEXT)
SPINE = P.get("spine", "objarr")
MAXN = P.get("maxn", 2)
SIGMA = ["a", "/", "~", "0", "1", "+", "-", "#", "\\", "é", "²", "_", " ", "'", '"', "\u0661", "\U0001F600", "\x01", "u", "2"][: P.get("sigma", 20)]
PREFIX = P.get("prefix", 0)
BASE = P.get("base", 0)
MAXS = P.get("maxs", 3)
UE = P.get("unicode_escape", False)


def only_family(text: str) -> bool:
    """Native replay target: compile(text) returns or raises a JSONPath error, nothing else; the error renders."""
    try:
        JSONPathEnvironment().compile(text)
    except jsonpath.JSONPathError as e:
        str(e)
        return True
    return True


def _value(kind: int, i: int, s: str, flip: bool) -> Any:
    """A value of every JSON kind: null, bool, number, string, array, object (contents symbolic)."""
    if kind == 0:
        return None
    if kind == 1:
        return flip
    if kind == 2:
        return i
    if kind == 3:
        return s
    if kind == 4:
        return [s, i] if flip else [i]
    return {"a": i, "b": s} if flip else {"b": i}


def evaluate(ka: int, kb: int, i: int, s: str, flip: bool, n: int) -> bool:
    """Evaluation of a compiled query returns matches or raises a JSONPath error - nothing else - and the error renders.

    pre: 0 <= ka <= 5 and 0 <= kb <= 5
    pre: 0 <= n <= MAXN
    pre: len(s) <= 2
    post: _
    """
    a, b = _value(ka, i, s, flip), _value(kb, i + 1, s, not flip)
    if SPINE == "objarr":
        doc: Any = [{"a": a, "b": b}, {"a": b}, a][: n + 1]
    elif SPINE == "obj":
        doc = {"a": a, "b": b, "c": [a, b][:n]}
    else:
        doc = [a, b, [a], {"a": b}][: n + 2]
    try:
        if P.get("route") == "async":  # the async entry points are held to the same rule
            drive(alist(drive(COMPILED.finditer_async(doc, filter_context={"k": i, "a": a}))))
        else:
            list(COMPILED.finditer(doc, filter_context={"k": i, "a": a}))
    except jsonpath.JSONPathError as e:
        str(e)
    return ok(True)


def _sigma(i: int, j: int, k: int, n: int) -> str:
    s = ""
    if n >= 1:
        s += pick(SIGMA, i)
    if n >= 2:
        s += pick(SIGMA, j)
    if n >= 3:
        s += pick(SIGMA, k)
    return s


def pointer_text(s: str, arr: bool, x: Leaf) -> bool:
    """Any text as a JSON Pointer (escape decoding off): accepted or JSONPointerError; resolution only fails with
    pointer resolution errors; exists() never raises.

    pre: len(s) <= MAXS
    pre: small(x)
    post: _
    """
    try:
        p = JSONPointer(s, unicode_escape=False)
    except JSONPointerError as e:
        str(e)
        return ok(True)
    str(p)
    doc: Any = [x, [x], {"a": x}] if arr else {"a": x, "": [x, x], "0": {"1": x}, "b": "str"}
    try:
        p.resolve(doc)
        res = True
    except JSONPointerResolutionError as e:
        str(e)
        res = False
    ex = p.exists(doc)
    return ok(why(ex == res, "exists disagrees with resolve", s, ex, res))


def pointer_sigma(i: int, j: int, k: int, n: int, arr: bool) -> bool:
    """Same, text drawn from the representative alphabet Sigma (escape decoding per P: the codec is a C boundary).

    pre: 0 <= i < len(SIGMA) and 0 <= j < len(SIGMA) and 0 <= k < len(SIGMA)
    pre: 0 <= n <= MAXS
    post: _
    """
    s = ["/", "", "/a/"][PREFIX] + _sigma(i, j, k, n)
    try:
        p = JSONPointer(s, unicode_escape=UE)
    except JSONPointerError as e:
        str(e)
        return ok(True)
    str(p)
    doc: Any = [1, [2], {"a": 3}] if arr else {"a": [1, 2], "": [1], "0": {"1": 2}, "b": "str", "é": 1}
    try:
        p.resolve(doc)
    except JSONPointerResolutionError as e:
        str(e)
    try:
        p.resolve_parent(doc)
    except JSONPointerResolutionError as e:
        str(e)
    p.exists(doc)
    return ok(True)


def relative_sigma(steps: int, off: int, i: int, j: int, k: int, n: int) -> bool:
    """Any text as a Relative JSON Pointer; applying it to a base pointer.

    pre: 0 <= steps < len(STEPS)
    pre: 0 <= off < len(OFFS)
    pre: 0 <= i < len(SIGMA) and 0 <= j < len(SIGMA) and 0 <= k < len(SIGMA)
    pre: 0 <= n <= MAXS
    post: _
    """
    head = pick(STEPS, steps)
    mid = pick(OFFS, off)
    s = head + mid + _sigma(i, j, k, n)
    b = JSONPointer(["", "/a", "/a/1", "/a/b/2", "/a/\u00b2", "/\u2460/x"][BASE])  # 4, 5: tokens that str.isdigit() accepts and int() refuses
    try:
        r = RelativeJSONPointer(s, unicode_escape=UE)
    except (RelativeJSONPointerError, JSONPointerError) as e:
        str(e)
        return ok(True)
    str(r)
    try:
        str(r.to(b))
    except (RelativeJSONPointerError, JSONPointerError) as e:
        str(e)
    try:
        str(b.to(s, unicode_escape=UE))
    except (RelativeJSONPointerError, JSONPointerError) as e:
        str(e)
    return ok(True)


STEPS = ["", "0", "1", "2", "3", "10", "01", "-1"]
OFFS = ["", "+1", "-1", "+2", "-2", "+10", "-12", "+0", "+", "-", "+01"]
OPNAMES = ["add", "remove", "replace", "move", "copy", "test", "addne", "addap", "nope", 1, None]
PTRS = ["", "/a", "/a/0", "/a/-", "/a/1", "/b/c", "/zz", "/a/x", "a", "/a/#", "/#a", "/a/#0", "/a/#1", "/a/00", "/a/9", "/b/c/d", "/b", 1, None][P.get("ptrlo", 0):]


FROMS = ["/a/0", "/b", "/a", "", "/zz", "/a/-", "/#a", "/a/#0", 1, None]
OPLO, OPHI = P.get("oplo", 0), P.get("ophi", 10)


BPTRS = ["/a/0", "a", "/b/c", "", 1, None]


def patch_build_apply(op: int, hp: bool, hf: bool, hv: bool, pi: int, fi: int, v: Leaf, x: int) -> bool:
    """Building a patch from a dict with symbolic member presence/kinds and applying it: only patch errors.

    pre: 0 <= op < len(OPNAMES) and 0 <= pi < len(BPTRS) and 0 <= fi < len(BPTRS)
    pre: small(v)
    post: _
    """
    d: Dict[str, Any] = {"op": pick(OPNAMES, op)}
    if hp:
        d["path"] = pick(BPTRS, pi)
    if hf:
        d["from"] = pick(BPTRS, fi)
    if hv:
        d["value"] = v
    try:
        patch = JSONPatch([d], unicode_escape=False)
    except JSONPatchError as e:
        str(e)
        return ok(True)
    doc: Any = {"a": [x], "b": {"c": x}}
    try:
        patch.apply(doc)
    except JSONPatchError as e:
        str(e)
    patch.asdicts()
    return ok(True)


def patch_builder(which: int, pi: int, fi: int, v: Leaf, x: int, n: int) -> bool:
    """Builder API with pointer strings, then apply: only patch errors (pointer errors at build time are pointer errors).

    pre: OPLO <= which <= OPHI and 0 <= pi < len(PTRS) - 2 and 0 <= fi < len(FROMS) - 2
    pre: 0 <= n <= 2
    pre: small(v, x)
    post: _
    """
    p = JSONPatch(unicode_escape=False)
    path, from_ = pick(PTRS, pi), pick(FROMS, fi)
    try:
        if which == 0:
            p.add(path, v)
        elif which == 1:
            p.remove(path)
        elif which == 2:
            p.replace(path, v)
        elif which == 3:
            p.move(from_, path)
        elif which == 4:
            p.copy(from_, path)
        elif which == 5:
            p.test(path, v)
        elif which == 6:
            p.addne(path, v)
        else:
            p.addap(path, v)
    except JSONPointerError as e:
        str(e)
        return ok(True)
    arr = [] if n == 0 else ([x] if n == 1 else [x, 1])
    doc: Any = {"a": arr, "b": {"c": x}}
    try:
        p.apply(doc)
    except JSONPatchError as e:
        str(e)
    return ok(True)


def pointer_only_family(text: str) -> bool:
    """Native replay target: any text as a JSON Pointer is accepted or rejected with a pointer error; resolution likewise."""
    try:
        p = JSONPointer(text)
    except JSONPointerError as e:
        str(e)
        return True
    try:
        p.resolve({"a": [1]})
    except JSONPointerResolutionError as e:
        str(e)
    return True


def patch_only_family(arg: Any) -> bool:
    """Native replay target: building a patch from any value fails only with a patch error."""
    try:
        p = JSONPatch(arg)
    except JSONPatchError as e:
        str(e)
        return True
    try:
        p.apply({"a": [1]})
    except JSONPatchError as e:
        str(e)
    return True
