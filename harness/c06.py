"""C06 harness: only the documented error families ever escape; every call terminates."""
from __future__ import annotations

import jsonpath
from jsonpath import JSONPathEnvironment


def only_family(text: str) -> bool:
    """Native replay target: compile(text) returns or raises a JSONPath error, nothing else; the error renders."""
    try:
        JSONPathEnvironment().compile(text)
    except jsonpath.JSONPathError as e:
        str(e)
        return True
    return True
