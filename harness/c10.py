"""C10 harness: a compiled query's string form recompiles to an equivalent query."""
from __future__ import annotations

from typing import Any, List, Union

import jsonpath
from jsonpath import JSONPathEnvironment

from vlib import spines
from vlib.hs import Leaf, P, kf, ok, pick, small, why

ENV = JSONPathEnvironment()
QTEXT = P.get("qtext", "$.a")
SPINE = P.get("spine", "objarr")
A = ENV.compile(QTEXT)
STEXT = str(A)
try:
    B = ENV.compile(STEXT)
    B_ERR = None
except Exception as e:  # noqa: BLE001 - reported by the deterministic obligation, not here
    B, B_ERR = None, f"{type(e).__name__}: {e}"
MAXN = P.get("maxn", 2)
_LT = {"leaf": Leaf, "int": int, "intstr": Union[int, str], "nbi": Union[None, bool, int], "boolint": Union[bool, int]}
LT = _LT[P.get("leaf", "intstr")]
LT2 = _LT[P.get("leaf2", "int")]
STRS = P.get("strs")  # optional pool: leaves become pooled strings (regex / quoting conditions)


def sig(ms: Any) -> List[Any]:
    return [(m.path, m.obj) for m in ms]


def fixed_point(qtext: str) -> bool:
    """Deterministic part: str(compile(q)) compiles and is a fixed point."""
    env = JSONPathEnvironment()
    a = env.compile(qtext)
    s = str(a)
    b = env.compile(s)
    return why(str(b) == s, "not a fixed point", s, str(b))


def _eval(p: Any, doc: Any, ctx: Any) -> Any:
    try:
        return ("ok", sig(p.finditer(doc, filter_context=ctx)))
    except jsonpath.JSONPathError as e:
        return ("err", type(e).__name__)


def roundtrip(l0: LT, l1: LT, l2: LT2, l3: LT2, n: int, b0: bool, b1: bool, b2: bool, ck: LT2) -> bool:
    """
    pre: 0 <= n <= MAXN
    pre: small(l0, l1, l2, l3, ck)
    pre: STRS is None or (0 <= l0 < len(STRS) and 0 <= l1 < len(STRS))
    post: _
    """
    if B is None:
        return ok(True)  # the deterministic obligation reports this
    if STRS is not None:
        l0, l1 = pick(STRS, l0), pick(STRS, l1)
    doc = spines.build(SPINE, [l0, l1, l2, l3, l0, l1], n, [b0, b1, b2])
    ctx = {"k": ck, "a": [ck, 1], "b": "a"}
    ra = _eval(A, doc, ctx)
    rb = _eval(B, doc, ctx)
    return ok(why(ra == rb, "string form evaluates differently", QTEXT, STEXT, ra, rb))
