"""C14 harness: JSON Pointer text, tokens and navigation operations are mutually consistent."""
from __future__ import annotations

from typing import Any, List

from jsonpath import JSONPointer
from jsonpath.exceptions import JSONPointerError, JSONPointerResolutionError

from vlib import oracle_ptr as O
from vlib.hs import P, kf, ok, pick, why

MAXS = P.get("maxs", 2)
UE = P.get("unicode_escape", False)
SIGMA = ["a", "/", "~", "0", "1", "+", "-", "²", "#", "", " ", "é", "١", "\U0001F600", "_", "2", "\x01", "１", "'", "b"][: P.get("sigma", 20)]
# escaped-form token pieces for join/slash (t is given in escaped form)
PIECES = ["a", "~1", "~0", "0", "1 ", "+1", "-", "#", "", "é", "~01", "a\t", "01", "-1", "1", "\U0001F600", "b", "a\u00a0"][: P.get("pieces", 18)]
BASES = ["", "/a", "/a/0", "/0", "/a~1b/~0", "//", "/é/1"]


def _valid_text(s: str) -> bool:
    """RFC 6901 json-pointer without leading blanks or backslashes; '~' only as ~0 / ~1."""
    if s == "":
        return True
    if not s.startswith("/"):
        return False
    if "\\" in s:
        return False
    # every '~' must be followed by 0 or 1
    t = s.replace("~0", "").replace("~1", "")
    return "~" not in t


def parse_print_text(s: str, s2: str) -> bool:
    """Parse-print identity and equality-iff-tokens-equal on symbolic pointer text (escape decoding off).

    pre: len(s) <= MAXS and len(s2) <= MAXS
    pre: _valid_text(s) and _valid_text(s2)
    post: _
    """
    p, q = JSONPointer(s, unicode_escape=False), JSONPointer(s2, unicode_escape=False)
    if not why(str(p) == s, "parse-print", s, str(p)):
        return ok(False)
    same = O.parse(s) == O.parse(s2)
    return ok(why((p == q) == same, "equality", s, s2, p.parts, q.parts) and (not same or hash(p.parts) == hash(q.parts)))


def _sig(i: int, j: int, k: int, n: int) -> str:
    s = ""
    if n >= 1:
        s += pick(SIGMA, i)
    if n >= 2:
        s += pick(SIGMA, j)
    if n >= 3:
        s += pick(SIGMA, k)
    return s


SECOND = ["", "0", "~", "a", "1"][: P.get("second", 5)]
NT = P.get("nt")


def tokens_sigma(i: int, j: int, n: int, i2: int, nt: int) -> bool:
    """Token lists over Sigma: from_parts prints the RFC spelling, parsing it gives an equal pointer, parse-print identity,
    equality iff token sequences are equal however constructed.

    pre: 0 <= i < len(SIGMA) and 0 <= j < len(SIGMA) and 0 <= i2 < len(SECOND)
    pre: 0 <= n <= MAXS
    pre: 1 <= nt <= 2 and (NT is None or nt == NT)
    pre: nt == 2 or i2 == 0
    post: _
    """
    t1, t2 = _sig(i, j, 0, n), pick(SECOND, i2)
    tokens = [t1] if nt == 1 else [t1, t2]
    text = O.spell(tokens)
    fp = JSONPointer.from_parts(tokens, unicode_escape=UE)
    if not why(str(fp) == text, "from_parts spelling", tokens, str(fp), text):
        return ok(False)
    pp = JSONPointer(text, unicode_escape=UE)
    if not why(str(pp) == text, "parse-print", text, str(pp)):
        return ok(False)
    if not why(pp == fp and fp == pp and hash(pp) == hash(fp), "parsed spelling not equal to from_parts", text, pp.parts, fp.parts):
        return ok(False)
    swapped = [t2] if nt == 1 else [t2, t1]
    other = JSONPointer.from_parts(swapped, unicode_escape=UE)
    same = swapped == tokens
    return ok(why((other == pp) == same, "equality vs swapped", tokens, other.parts, pp.parts))


def navigation(b: int, x: int, y: int, viaslash: bool, v: int) -> bool:
    """p joined with an escaped token t: parent is p, relative to p, resolves as resolve(p) then step t.

    pre: 0 <= b < len(BASES) and 0 <= x < len(PIECES) and 0 <= y < 4
    post: _
    """
    base = JSONPointer(pick(BASES, b), unicode_escape=UE)
    t = pick(PIECES, x)
    j = (base / t) if viaslash else base.join(t)
    tok = O.dec_token(t)
    exp_tokens = O.parse(str(base)) + [tok]
    if not why(str(j) == O.spell(exp_tokens), "joined spelling", str(base), t, str(j), O.spell(exp_tokens)):
        return ok(False)
    if not why(j.parent() == base and str(j.parent()) == str(base), "parent", str(j.parent()), str(base)):
        return ok(False)
    if not why(j.is_relative_to(base) and not base.is_relative_to(j) and not j.is_relative_to(j), "is_relative_to"):
        return ok(False)
    # resolves as resolve-then-step on a document built to contain the location
    doc: Any = v
    for tk in reversed(exp_tokens):
        doc = {tk: doc, "zz": 0}
    try:
        got = j.resolve(doc)
    except JSONPointerResolutionError as e:
        return ok(why(False, "does not resolve", str(j), doc, str(e)))
    if not why(got == v, "resolves elsewhere", got):
        return ok(False)
    # where p resolves to a string (a primitive: no members), stepping by t fails, so the joined pointer does not resolve
    sdoc: Any = "xyz"
    for tk in reversed(exp_tokens[:-1]):
        sdoc = {tk: sdoc, "zz": 0}
    if not why(base.resolve(sdoc) == "xyz" and not j.exists(sdoc), "steps into a string", str(j), sdoc):
        return ok(False)
    # two joins; a part with a leading slash replaces
    t2 = pick(PIECES, y)
    jj = base.join(t, t2)
    if not why(str(jj) == O.spell(exp_tokens + [O.dec_token(t2)]) and jj.parent() == j, "second join", str(jj)):
        return ok(False)
    rep = base / ("/" + t2)
    return ok(why(str(rep) == "/" + t2 if _valid_text("/" + t2) else True, "leading slash replaces", str(rep)))


def root_and_chains(b: int, x: int, y: int) -> bool:
    """The parent of the root is the root; join then parent chains return to the start.

    pre: 0 <= b < len(BASES) and 0 <= x < len(PIECES) and 0 <= y < len(PIECES)
    post: _
    """
    root = JSONPointer("")
    if not (root.parent() == root and str(root.parent()) == "" and root.parent().parent() == root):
        return ok(False)
    base = JSONPointer(pick(BASES, b), unicode_escape=UE)
    t, t2 = pick(PIECES, x), pick(PIECES, y)
    j = base.join(t).join(t2)
    back = j.parent().parent()
    n = len(O.parse(str(base)))
    up = base
    for _ in range(n + 2):
        up = up.parent()
    return ok(why(back == base and str(back) == str(base), "join/parent chain", str(j), str(back)) and up == root
              and j.is_relative_to(base) and (n == 0 or base.is_relative_to(root)))
