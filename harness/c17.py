"""C17 harness: renaming the environment's identifier tokens never changes what a query means."""
from __future__ import annotations

from typing import Any, Dict, List, Union

import jsonpath
from jsonpath import JSONPathEnvironment

from vlib import oracle, spines
from vlib.hs import Leaf, P, alist, drive, kf, ok, small, why

DEFAULTS = {"R": "$", "S": "@", "K": "#", "C": "_", "Y": "~", "F": "^", "U": "|", "I": "&"}
TOKENS: Dict[str, str] = dict(DEFAULTS, **P.get("tokens", {}))
TEMPLATE = P.get("template", "{R}.a")
SPINE = P.get("spine", "objarr")
MAXN = P.get("maxn", 2)
ATTR = {"R": "root_token", "S": "self_token", "K": "key_token", "C": "filter_context_token", "Y": "keys_selector_token",
        "F": "fake_root_token", "U": "union_token", "I": "intersection_token"}


def make_env(tokens: Dict[str, str]) -> JSONPathEnvironment:
    cls = type("CustomEnv", (JSONPathEnvironment,), {ATTR[k]: v for k, v in tokens.items()})
    return cls()


def render(template: str, tokens: Dict[str, str]) -> str:
    return template.format(**tokens)


CENV = make_env(TOKENS)
DENV = JSONPathEnvironment()
CTEXT = render(TEMPLATE, TOKENS)
DTEXT = render(TEMPLATE, DEFAULTS)
CQ = CENV.compile(CTEXT)
DQ = DENV.compile(DTEXT)
try:
    RQ = CENV.compile(str(CQ))
except Exception:  # noqa: BLE001 - reported by the deterministic obligation
    RQ = None
LT = {"leaf": Leaf, "int": int, "nbi": Union[None, bool, int], "intstr": Union[int, str]}[P.get("leaf", "nbi")]


def structure(tokens: Dict[str, str], template: str) -> bool:
    """Deterministic: the query in custom spellings compiles (in the custom environment) to the same structure as the
    default-spelling query in the default environment, and its string form recompiles to that structure and is a fixed point."""
    cenv = make_env(dict(DEFAULTS, **tokens))
    cq = cenv.compile(render(template, dict(DEFAULTS, **tokens)))
    dq = JSONPathEnvironment().compile(render(template, DEFAULTS))
    if not why(_shape(cq) == _shape(dq), "custom spelling compiles to a different structure", _shape(cq), _shape(dq)):
        return False
    s = str(cq)
    rq = cenv.compile(s)
    return why(_shape(rq) == _shape(dq), "string form recompiles to a different structure", s) and why(str(rq) == s, "not a fixed point", s, str(rq))


def structure_history(history: List[Any]) -> bool:
    """Several environments with different token assignments used one after another in one process: the *last*
    (tokens, template) must still satisfy structure() - state shared between environments would show here."""
    for tokens, template in history[:-1]:
        try:
            structure(tokens, template)
        except Exception:  # noqa: BLE001 - only the last entry is judged
            pass
    tokens, template = history[-1]
    return structure(tokens, template)


def _shape(q: Any) -> Any:
    if hasattr(q, "paths"):
        kind = {"|": "union", "&": "intersection"}
        return ("compound", oracle.shape(q.path), tuple((("union" if op == q.env.union_token else "intersection"), oracle.shape(p)) for op, p in q.paths))
    return oracle.shape(q)


def sig(ms: Any, strip: str = "") -> List[Any]:
    out = []
    for m in ms:
        parts = tuple((p[len(strip):] if strip and isinstance(p, str) and p.startswith(strip) else p) for p in m.parts)
        out.append((parts, m.obj))
    return out


def _same(a: List[Any], b: List[Any]) -> bool:
    if len(a) != len(b):
        return False
    for (pa, va), (pb, vb) in zip(a, b):
        if isinstance(vb, (list, dict)):
            if va is not vb:
                return False
        elif not (type(va) is type(vb) and va == vb):
            return False
    return True


def meaning(l0: LT, l1: LT, l2: int, l3: int, n: int, b0: bool, b1: bool, ck: int) -> bool:
    """The custom-spelling query, the default-spelling query and the custom query recompiled from its own string form
    return the same matches.

    pre: 0 <= n <= MAXN
    pre: small(l0, l1)
    post: _
    """
    doc = spines.build(SPINE, [l0, l1, l2, l3, l0, l1], n, [b0, b1, True])
    ctx = {"k": ck, "a": [ck, 1]}
    d = sig(DQ.finditer(doc, filter_context=ctx))
    c = sig(CQ.finditer(doc, filter_context=ctx))
    if not why(_same(c, d), "custom environment evaluates differently", CTEXT, DTEXT, c, d):
        return ok(False)
    ca = sig(drive(alist(drive(CQ.finditer_async(doc, filter_context=ctx)))))
    if not why(_same(ca, d), "custom environment evaluates differently through the async route", CTEXT, ca, d):
        return ok(False)
    if RQ is None:
        return ok(True)
    r = sig(RQ.finditer(doc, filter_context=ctx))
    return ok(why(_same(r, d), "string form evaluates differently", str(CQ), r, d))
