"""C19 harness: projection returns exactly the selected values, nothing more, in place."""
from __future__ import annotations

from typing import Any, Dict, List, Tuple, Union

import jsonpath
from jsonpath import JSONPathEnvironment, Projection

from vlib import spines
from vlib.hs import Leaf, P, kf, ok, same_json, small, why

ENV = JSONPathEnvironment()
MATCHQ = P.get("match", "$")
EXPRS: List[str] = P.get("exprs", ["$.a"])
STYLE = {"relative": Projection.RELATIVE, "root": Projection.ROOT, "flat": Projection.FLAT}[P.get("style", "relative")]
SPINE = P.get("spine", "nest1")
MAXN = P.get("maxn", 2)
COMPILED = ENV.compile(MATCHQ)
REL = [ENV.compile(e) for e in EXPRS]
LT = {"leaf": Leaf, "int": int, "nbi": Union[None, bool, int]}[P.get("leaf", "nbi")]


class _M:
    def __init__(self, parts: tuple, obj: Any) -> None:
        self.parts = parts
        self.obj = obj


def _build(nodes: List[Tuple[tuple, Any]]) -> Any:
    """The value in which each selected node is found at its location, array indices replaced by their rank."""
    trie: Dict[Any, Any] = {}
    for parts, v in nodes:
        cur = trie
        for p in parts[:-1]:
            if p not in cur or not isinstance(cur[p], _T):
                cur[p] = _T()
            cur = cur[p]
        cur[parts[-1]] = _V(v)
    return _conv(trie)


class _T(dict):
    pass


class _V:
    def __init__(self, v: Any) -> None:
        self.v = v


def _conv(t: Any) -> Any:
    if isinstance(t, _V):
        return t.v
    keys = list(t.keys())
    if keys and isinstance(keys[0], int):
        return [_conv(t[k]) for k in sorted(keys)]
    return {k: _conv(t[k]) for k in keys}


from vlib import oracle as _oracle  # noqa: E402
from vlib.shape2ast import ast_of as _ast_of  # noqa: E402

# locations of matches and of selected nodes come from the independent RFC 9535 evaluator, not from the library
MATCH_AST = _ast_of(COMPILED)
REL_AST = [_ast_of(r) for r in REL]
assert MATCH_AST is not None and all(a is not None for a in REL_AST), "catalogue query outside the reference evaluator's grammar"


def _expected(doc: Any) -> List[Any]:
    out = []
    for mparts, mobj in _oracle.evaluate(MATCH_AST, doc):
        m = _M(mparts, mobj)
        if not isinstance(m.obj, (list, dict)):
            continue
        nodes: List[Tuple[tuple, Any]] = []
        for r in REL_AST:
            for rparts, robj in _oracle.evaluate(r, m.obj):
                nodes.append((rparts, robj))
        if not nodes:
            continue
        if STYLE == Projection.FLAT:
            out.append([v for _, v in nodes])
        elif STYLE == Projection.RELATIVE:
            out.append(_build(nodes))
        else:
            out.append(_build([(m.parts + p, v) for p, v in nodes]))
    return out


def project(l0: LT, l1: LT, l2: int, l3: int, n: int, b0: bool) -> bool:
    """
    pre: 0 <= n <= MAXN
    pre: small(l0, l1)
    post: _
    """
    doc = spines.build(SPINE, [l0, l1, l2, l3, l0, l1], n, [b0, True, True])
    before = spines.build(SPINE, [l0, l1, l2, l3, l0, l1], n, [b0, True, True])
    exp = _expected(doc)
    got = list(ENV.query(MATCHQ, doc).select(*EXPRS, projection=STYLE))
    # compiled-expression arguments behave like text arguments
    got2 = list(COMPILED.query(doc).select(*REL, projection=STYLE))
    if not why(len(got) == len(exp), "number of projections", got, exp):
        return ok(False)
    for g, e in zip(got, exp):
        if not why(same_json(g, e), "projection", MATCHQ, EXPRS, got, exp):
            return ok(False)
    if not why(same_json(got2, got), "compiled expressions differ"):
        return ok(False)
    return ok(why(same_json(doc, before), "document modified"))


def _pool(i: int) -> Any:
    """Selected values / matches that are empty or nested-empty containers, or strings that look like JSON text."""
    if i == 0:
        return {}
    if i == 1:
        return []
    if i == 2:
        return "s"
    if i == 3:
        return "[1, 2]"
    if i == 4:
        return {"k": {}}
    if i == 5:
        return [[]]
    if i == 6:
        return '{"a": 7, "b": [8]}'
    if i == 7:
        return {"a": {}, "b": []}
    return 0


NPOOL = 9


def project_pool(i0: int, i1: int, l2: int, l3: int, n: int, b0: bool) -> bool:
    """As project(), the leaves drawn from a pool of empty containers, containers of empty containers and JSON-looking strings.

    pre: 0 <= n <= MAXN
    pre: 0 <= i0 < NPOOL and 0 <= i1 < NPOOL
    post: _
    """
    doc = spines.build(SPINE, [_pool(i0), _pool(i1), 7, _pool(i1) if SPINE in ('nest2', 'nest3') else 8, _pool(i0), _pool(i1)], n, [True, True, True])
    before = spines.build(SPINE, [_pool(i0), _pool(i1), 7, _pool(i1) if SPINE in ('nest2', 'nest3') else 8, _pool(i0), _pool(i1)], n, [True, True, True])
    exp = _expected(doc)
    got = list(ENV.query(MATCHQ, doc).select(*EXPRS, projection=STYLE))
    if not why(len(got) == len(exp), "number of projections", MATCHQ, EXPRS, doc, got, exp):
        return ok(False)
    for g, e in zip(got, exp):
        if not why(same_json(g, e), "projection", MATCHQ, EXPRS, doc, got, exp):
            return ok(False)
    return ok(why(same_json(doc, before), "document modified"))


def unchanged(l0: LT, l1: LT, l2: int, l3: int, n: int, b0: bool) -> bool:
    """Overlapping selections (a container and something inside it): whatever the projection, the document is not modified.

    pre: 0 <= n <= MAXN
    pre: small(l0, l1)
    post: _
    """
    doc = spines.build(SPINE, [l0, l1, l2, l3, l0, l1], n, [b0, True, True])
    before = spines.build(SPINE, [l0, l1, l2, l3, l0, l1], n, [b0, True, True])
    list(ENV.query(MATCHQ, doc).select(*EXPRS, projection=STYLE))
    return ok(why(same_json(doc, before), "document modified by projection", MATCHQ, EXPRS, doc, before))


def ancestor_first(l0: LT, l1: LT, l2: int, l3: int, n: int, b0: bool) -> bool:
    """EXPRS = the ancestor at position P['anc'] (default first) and nodes inside it, before or after: the ancestor is selected whole, so the projection equals the projection of
    the ancestor alone (every selected node's value is found at its location), and the document is unchanged.

    pre: 0 <= n <= MAXN
    pre: small(l0, l1)
    post: _
    """
    doc = spines.build(SPINE, [l0, l1, l2, l3, l0, l1], n, [b0, True, True])
    before = spines.build(SPINE, [l0, l1, l2, l3, l0, l1], n, [b0, True, True])
    both = list(ENV.query(MATCHQ, doc).select(*EXPRS, projection=STYLE))
    alone = list(ENV.query(MATCHQ, doc).select(EXPRS[P.get('anc', 0)], projection=STYLE))
    if STYLE == Projection.FLAT:
        return ok(same_json(doc, before))
    return ok(why(same_json(both, alone), "a wholly selected container lost part of its value", EXPRS, both, alone) and same_json(doc, before))
