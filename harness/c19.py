"""C19 harness: projection returns exactly the selected values, nothing more, in place."""
from __future__ import annotations

from typing import Any, Dict, List, Tuple, Union

import jsonpath
from jsonpath import JSONPathEnvironment, Projection

from vlib import spines
from vlib.hs import Leaf, P, kf, ok, same_json, small, why

ENV = JSONPathEnvironment()
MATCHQ = P.get("match", "$")
EXPRS: List[str] = P.get("exprs", ["$.a"])
STYLE = {"relative": Projection.RELATIVE, "root": Projection.ROOT, "flat": Projection.FLAT}[P.get("style", "relative")]
SPINE = P.get("spine", "nest1")
MAXN = P.get("maxn", 2)
COMPILED = ENV.compile(MATCHQ)
REL = [ENV.compile(e) for e in EXPRS]
LT = {"leaf": Leaf, "int": int, "nbi": Union[None, bool, int]}[P.get("leaf", "nbi")]


def _build(nodes: List[Tuple[tuple, Any]]) -> Any:
    """The value in which each selected node is found at its location, array indices replaced by their rank."""
    trie: Dict[Any, Any] = {}
    for parts, v in nodes:
        cur = trie
        for p in parts[:-1]:
            if p not in cur or not isinstance(cur[p], _T):
                cur[p] = _T()
            cur = cur[p]
        cur[parts[-1]] = _V(v)
    return _conv(trie)


class _T(dict):
    pass


class _V:
    def __init__(self, v: Any) -> None:
        self.v = v


def _conv(t: Any) -> Any:
    if isinstance(t, _V):
        return t.v
    keys = list(t.keys())
    if keys and isinstance(keys[0], int):
        return [_conv(t[k]) for k in sorted(keys)]
    return {k: _conv(t[k]) for k in keys}


def _expected(doc: Any) -> List[Any]:
    out = []
    for m in COMPILED.finditer(doc):
        if not isinstance(m.obj, (list, dict)):
            continue
        nodes: List[Tuple[tuple, Any]] = []
        for r in REL:
            for rm in r.finditer(m.obj):
                nodes.append((rm.parts, rm.obj))
        if not nodes:
            continue
        if STYLE == Projection.FLAT:
            out.append([v for _, v in nodes])
        elif STYLE == Projection.RELATIVE:
            out.append(_build(nodes))
        else:
            out.append(_build([(m.parts + p, v) for p, v in nodes]))
    return out


def project(l0: LT, l1: LT, l2: int, l3: int, n: int, b0: bool) -> bool:
    """
    pre: 0 <= n <= MAXN
    pre: small(l0, l1)
    post: _
    """
    doc = spines.build(SPINE, [l0, l1, l2, l3, l0, l1], n, [b0, True, True])
    before = spines.build(SPINE, [l0, l1, l2, l3, l0, l1], n, [b0, True, True])
    exp = _expected(doc)
    got = list(ENV.query(MATCHQ, doc).select(*EXPRS, projection=STYLE))
    # compiled-expression arguments behave like text arguments
    got2 = list(COMPILED.query(doc).select(*REL, projection=STYLE))
    if not why(len(got) == len(exp), "number of projections", got, exp):
        return ok(False)
    for g, e in zip(got, exp):
        if not why(same_json(g, e), "projection", MATCHQ, EXPRS, got, exp):
            return ok(False)
    if not why(same_json(got2, got), "compiled expressions differ"):
        return ok(False)
    return ok(why(same_json(doc, before), "document modified"))


def unchanged(l0: LT, l1: LT, l2: int, l3: int, n: int, b0: bool) -> bool:
    """Overlapping selections (a container and something inside it): whatever the projection, the document is not modified.

    pre: 0 <= n <= MAXN
    pre: small(l0, l1)
    post: _
    """
    doc = spines.build(SPINE, [l0, l1, l2, l3, l0, l1], n, [b0, True, True])
    before = spines.build(SPINE, [l0, l1, l2, l3, l0, l1], n, [b0, True, True])
    list(ENV.query(MATCHQ, doc).select(*EXPRS, projection=STYLE))
    return ok(why(same_json(doc, before), "document modified by projection", MATCHQ, EXPRS, doc, before))
