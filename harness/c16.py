"""C16 harness: Relative JSON Pointers are parsed, printed and applied per the draft."""
from __future__ import annotations

from typing import Any, List

from jsonpath import JSONPointer, RelativeJSONPointer
from jsonpath.exceptions import JSONPointerError, RelativeJSONPointerError

from vlib import oracle_ptr as O
from vlib.hs import P, kf, ok, pick, why

UE = P.get("unicode_escape", True)
BASES = [[], ["a"], ["a", "$"], ["a", "b", "$"], ["$", "$"], ["a~b", "c/d", "$"], ["é", "$", "x"]]
SUFFIXES = [[], "#", ["a"], ["a "], ["0"], ["a", "b"], ["~", "/"], ["é"], [""], ["-"], ["01"], ["b", " \n"]][: P.get("suffixes", 12)]
OFFSETS = [0, 1, -1, 2, -2, 10, -10, 12, -12, 123][: P.get("offsets", 10)]
LASTS = [0, 2, 10, 1, 9, 12][: P.get("lasts", 6)]
BASE = P.get("base")
VIASTR = P.get("viastr")
MAXSTEPS = P.get("maxsteps", 4)
BASEKIND = P.get("basekind", 0)


def rel_text(steps: int, off: int, suffix: Any) -> str:
    s = str(steps)
    if off:
        s += ("+" if off > 0 else "-") + str(abs(off))
    return s + ("#" if suffix == "#" else O.spell(suffix))


def apply_relative(b: int, last: int, steps: int, oi: int, si: int, viastr: bool) -> bool:
    """parse-print identity; to() equals the draft's definition; forbidden applications raise the relative-pointer error.

    pre: 0 <= b < len(BASES) and 0 <= last < len(LASTS)
    pre: BASE is None or b == BASE
    pre: VIASTR is None or viastr == VIASTR
    pre: 0 <= steps <= MAXSTEPS
    pre: 0 <= oi < len(OFFSETS) and 0 <= si < len(SUFFIXES)
    post: _
    """
    lastv = pick(LASTS, last)
    steps = pick([0, 1, 2, 3, 4, 5, 6], steps)  # rendered into text: concretise first (a symbolic digit string is costly and realised anyway)
    base_tokens = [str(lastv) if t == "$" else t for t in pick(BASES, b)]
    off = pick(OFFSETS, oi)
    suffix = pick(SUFFIXES, si)
    text = rel_text(steps, off, suffix)
    base = JSONPointer(O.spell(base_tokens), unicode_escape=UE)
    if BASEKIND == 1:  # the same base, built from a token list (index-like tokens stay strings)
        base = JSONPointer.from_parts(base_tokens, unicode_escape=False)
    elif BASEKIND == 2 and base_tokens:  # ... or reached through an earlier relative step
        base = JSONPointer(O.spell(base_tokens + ["zz"]), unicode_escape=UE).to("1")
    try:
        rel = RelativeJSONPointer(text, unicode_escape=UE)
    except (RelativeJSONPointerError, JSONPointerError) as e:
        return ok(why(False, "valid relative pointer rejected", text, type(e).__name__, str(e)))
    if not why(str(rel) == text, "parse-print", text, str(rel)):
        return ok(False)
    # the draft's definition
    remaining = base_tokens[: len(base_tokens) - steps] if steps <= len(base_tokens) else None
    if remaining is not None and off and (not remaining or not O.is_index(remaining[-1])):
        return ok(True)  # offset where the final token is not an array index (or at the root): outside the property
    try:
        exp = O.relative_to(base_tokens, steps, off, suffix)
        exp_err = False
    except O.RelError:
        exp, exp_err = None, True
    try:
        got = base.to(text, unicode_escape=UE) if viastr else rel.to(base)
        got_err = False
    except RelativeJSONPointerError as e:
        str(e)
        got, got_err = None, True
    if not why(got_err == exp_err, "outcome", O.spell(base_tokens), text, "real", got_err, str(got), "draft", exp_err, exp):
        return ok(False)
    if exp_err:
        return ok(True)
    if isinstance(exp, tuple):  # key marker
        want = O.spell(exp[1][:-1] + ["#" + exp[1][-1]])
        return ok(why(str(got) == want, "key marker", str(got), want))
    return ok(why(str(got) == O.spell(exp), "result", O.spell(base_tokens), text, str(got), O.spell(exp)))


def accepts_prefix(text: str) -> bool:
    """Native replay target for lane R: a draft-conforming relative pointer must be accepted and print back."""
    r = RelativeJSONPointer(text)
    return str(r) == text


RAWTOKENS = ["\\u0041", "a\\", "%41", "\\\\", "\\ud83d\\ude00", "x%2Fy"]


def tokens_once(ti: int, steps: int, oi: int, uri: bool, ue: bool, viastr: bool) -> bool:
    """The base's reference tokens are final: to() must not decode them again, whatever decoding options it is given for the
    relative pointer's own text (a base built from tokens that contain a backslash or a percent sign).

    pre: 0 <= ti < len(RAWTOKENS)
    pre: 0 <= steps <= 2
    pre: 0 <= oi <= 2
    post: _
    """
    tok = pick(RAWTOKENS, ti)
    off = pick([0, 1, -1], oi)
    steps = pick([0, 1, 2], steps)
    base_tokens = [tok, "1", tok]
    base = JSONPointer.from_parts(base_tokens, unicode_escape=False)
    text = rel_text(steps, off, ["zz"])
    remaining = base_tokens[: len(base_tokens) - steps]
    if off and not O.is_index(remaining[-1]):
        return ok(True)
    try:
        exp = O.relative_to(base_tokens, steps, off, ["zz"])
    except O.RelError:
        return ok(True)
    try:
        got = base.to(text, unicode_escape=ue, uri_decode=uri) if viastr else RelativeJSONPointer(text, unicode_escape=ue, uri_decode=uri).to(base, unicode_escape=ue, uri_decode=uri)
    except (RelativeJSONPointerError, JSONPointerError) as e:
        return ok(why(False, "raised", O.spell(base_tokens), text, type(e).__name__, str(e)))
    return ok(why(str(got) == O.spell(exp), "base tokens were decoded again", O.spell(base_tokens), text, str(got), O.spell(exp)))
