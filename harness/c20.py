"""C20 harness: match -> pointer -> patch edits exactly the matched node."""
from __future__ import annotations

import copy
from typing import Any, Dict, List, Union

import jsonpath
from jsonpath import JSONPatch, JSONPathEnvironment
from jsonpath.exceptions import JSONPatchError

import json

from vlib.hs import Leaf, P, alist, drive, kf, ok, pick, same_json, small, why

ENV = JSONPathEnvironment()
QTEXT = P.get("qtext", "$..*")
COMPILED = ENV.compile(QTEXT)
DOCKIND = P.get("doc", 0)
NAMES = ["1", "+1", "-1", "01", "~", "/", "", "é", "a/b", "~1", "#a", "0", " ", "-", "😀", "-0", "C:\\temp", "%41"]
ALO, AHI, NEXT_ONLY = P.get("alo", 0), P.get("ahi", 15), P.get("next_only", False)
ROUTE = P.get("route", "sync")
VT = {"leaf": Leaf, "int": int}[P.get("vleaf", "int")]


def mkdoc(l0: int, l1: int, l2: int, l3: int, n: int, k1: str, k2: str) -> Any:
    arr = []
    if n >= 1:
        arr.append(l2)
    if n >= 2:
        arr.append(l3)
    if DOCKIND == 0:
        return {"1": l0, "+1": l1, "-1": arr, "01": {"~": l2, "/": l3, "": l0, "é": l1, "-0": l2, "0": l3}}
    if DOCKIND == 3:
        rows = [l0, l1]
        if n >= 1:
            rows.append(l2)
        if n >= 2:
            rows.append(l3)
        return {"rows": rows, "1": [l3, l2, l1, l0, l1]}
    if DOCKIND == 1:
        return {k1: l0, k2: {k1: l1, "x": arr}, "x": [{k2: l2}]}
    return [arr, {"0": l0, "1": [l1]}, l3]


def _edit(doc: Any, parts: tuple, mode: str, value: Any) -> Any:
    """Reference edit at exactly `parts` on a deep copy (parts are member names / array indices as selected)."""
    out = copy.deepcopy(doc)
    cur = out
    for p in parts[:-1]:
        cur = cur[p]
    if mode == "replace":
        cur[parts[-1]] = value
    else:
        del cur[parts[-1]]
    return out


def pipeline(l0: int, l1: int, l2: int, l3: int, n: int, a: int, b: int, v: VT) -> bool:
    """For every match: test with the matched value passes, replace / remove through the match's pointer edit exactly
    the matched location.

    pre: 0 <= n <= 2
    pre: 0 <= a < len(NAMES) and 0 <= b < len(NAMES) and a != b
    pre: DOCKIND == 1 or (a == 0 and b == 1)
    pre: DOCKIND != 1 or (ALO <= a <= AHI and (not NEXT_ONLY or b == (a + 1) % len(NAMES)))
    pre: small(v)
    post: _
    """
    k1, k2 = pick(NAMES, a), pick(NAMES, b)
    doc = mkdoc(l0, l1, l2, l3, n, k1, k2)
    pristine = mkdoc(l0, l1, l2, l3, n, k1, k2)
    if ROUTE == "async":
        matches = drive(alist(drive(COMPILED.finditer_async(doc))))
    else:
        matches = list(COMPILED.finditer(doc))
    for m in matches:
        if not m.parts:
            continue
        ptr = m.pointer()
        # test passes and changes nothing
        d1 = mkdoc(l0, l1, l2, l3, n, k1, k2)
        try:
            r = JSONPatch().test(ptr, m.obj).apply(d1)
        except JSONPatchError as e:
            return ok(why(False, "test with the matched value failed", m.path, str(ptr), str(e)))
        if not why(same_json(r, pristine), "test changed the document"):
            return ok(False)
        # replace
        d2 = mkdoc(l0, l1, l2, l3, n, k1, k2)
        try:
            r2 = JSONPatch().replace(ptr, v).apply(d2)
        except JSONPatchError as e:
            return ok(why(False, "replace failed", m.path, str(ptr), str(e)))
        if not why(same_json(r2, _edit(pristine, m.parts, "replace", v)), "replace edited something else", m.path, str(ptr), r2):
            return ok(False)
        # remove
        d3 = mkdoc(l0, l1, l2, l3, n, k1, k2)
        try:
            r3 = JSONPatch().remove(ptr).apply(d3)
        except JSONPatchError as e:
            return ok(why(False, "remove failed", m.path, str(ptr), str(e)))
        if not why(same_json(r3, _edit(pristine, m.parts, "remove", None)), "remove edited something else", m.path, str(ptr), r3):
            return ok(False)
        # the pointer's text form behaves the same
        d4 = mkdoc(l0, l1, l2, l3, n, k1, k2)
        try:
            r4 = JSONPatch(unicode_escape=False).replace(str(ptr), v).apply(d4)
        except (JSONPatchError, jsonpath.JSONPointerError) as e:
            return ok(why(False, "replace via pointer text failed", str(ptr), str(e)))
        if not why(same_json(r4, _edit(pristine, m.parts, "replace", v)), "pointer text edits something else", str(ptr), r4):
            return ok(False)
    return ok(same_json(doc, pristine))


TEXT = json.dumps(mkdoc(1, 2, 3, 4, 2, "a", "b"))
NMATCH = len(list(COMPILED.finditer(json.loads(TEXT))))


def _apply(op: int, ptr: Any, obj: Any, v: Any, text: str) -> Any:
    if op == 0:
        return JSONPatch().test(ptr, obj).apply(text)
    if op == 1:
        return JSONPatch().replace(ptr, v).apply(text)
    return JSONPatch().remove(ptr).apply(text)


def _ref(op: int, parts: tuple, v: Any) -> Any:
    pristine = json.loads(TEXT)
    if op == 0:
        return pristine
    return _edit(pristine, parts, "replace" if op == 1 else "remove", v)


def text_history(i: int, j: int, op1: int, op2: int, v: int) -> bool:
    """The document is JSON text, matched and patched twice in a row: every call starts from the text, not from what an
    earlier call left behind.

    pre: 0 <= i < NMATCH and (j == i or j == (i + 1) % NMATCH)
    pre: 1 <= op1 <= 2 and 0 <= op2 <= 2
    post: _
    """
    m1 = list(COMPILED.finditer(TEXT))[i]
    if not m1.parts:
        return ok(True)
    r1 = _apply(op1, m1.pointer(), m1.obj, v, TEXT)
    if not why(same_json(r1, _ref(op1, m1.parts, v)), "first patch of the text", m1.path, op1, r1):
        return ok(False)
    again = list(COMPILED.finditer(TEXT))
    if not why(len(again) == NMATCH, "the text matches differently after a patch was applied to it", len(again), NMATCH):
        return ok(False)
    m2 = again[j]
    if not m2.parts:
        return ok(True)
    try:
        r2 = _apply(op2, m2.pointer(), m2.obj, v + 1, TEXT)
    except JSONPatchError as e:
        return ok(why(False, "second patch of the same text failed", m2.path, op2, str(e)))
    return ok(why(same_json(r2, _ref(op2, m2.parts, v + 1)), "second patch of the same text started from the patched document", m1.path, op1, m2.path, op2, r2))
