"""C02 harness: RFC 9535 filter expressions select exactly the nodes the RFC makes true."""
from __future__ import annotations

from typing import Any, Dict, List, Optional, Tuple, Union

import jsonpath
from jsonpath import JSONPathEnvironment
from jsonpath.filter import UNDEFINED
from jsonpath.match import NodeList

from vlib import oracle, spines
from vlib.hs import Leaf, P, kf, ok, pick, same_json, small, why

ENV = JSONPathEnvironment()
OPS = ["==", "!=", "<", "<=", ">", ">="]
FLOATS = [0.0, 1.0, 1.5, -1.0, 2.0**53]
STRS = ["", "a", "b", "ab", "B", "1", "é", "ab\n", "\n", "(", "a."]
INTS = [-1, 0, 1, 2, 2**53, 2**53 + 1]
KEYSETS = [("a", "b"), ("b", "a"), ("a", "c"), ("", "1")]
BI = Union[bool, int]

_KINDS: Dict[str, Any] = {
    "nothing": bool,  # which of the two run-time spellings of Nothing
    "null": bool,  # ignored
    "bool": bool,
    "int": int,
    "float": int,  # index into FLOATS
    "str": str,
    "pstr": int,  # index into STRS (ordering on pooled strings only)
    "pint": int,  # index into INTS (int meeting a float: the engine cannot decide symbolic int vs float)
    "array_bi": Tuple[int, BI, BI],  # arrays of bool|int look-alikes
    "object_bi": Tuple[int, bool, BI, BI],
    "array": Tuple[int, Leaf, int],  # (length, e0, e1)
    "object": Tuple[int, bool, Leaf, int],  # (member count, key order, v0, v1)
    "array2": List[List[Leaf]],
    "object2": Dict[str, List[Leaf]],
}
KA = P.get("ka", "int")
KB = P.get("kb", "int")
TA = _KINDS[KA]
TB = _KINDS[KB]
MAXC = P.get("maxc", 2)
OPLO, OPHI = P.get("oplo", 0), P.get("ophi", 5)


def _size_ok(kind: str, v: Any) -> bool:
    if kind in ("float",):
        return 0 <= v < len(FLOATS)
    if kind == "pstr":
        return 0 <= v < len(STRS)
    if kind == "pint":
        return 0 <= v < len(INTS)
    if kind in ("array", "array_bi"):
        return 0 <= v[0] <= MAXC and small(v[1])
    if kind in ("object", "object_bi"):
        return 0 <= v[0] <= MAXC and small(v[2])
    if kind == "str":
        return len(v) <= 2
    if kind == "array2":
        return len(v) <= MAXC and all(len(x) <= 1 for x in v)
    if kind == "object2":
        return len(v) <= 1 and all(len(x) <= MAXC for x in v.values())
    return True


def _mk(kind: str, v: Any) -> Any:
    """(value handed to the real code, value handed to the oracle)"""
    if kind == "nothing":
        return (UNDEFINED if v else NodeList(), oracle.NOTHING)
    if kind == "null":
        return (None, None)
    if kind == "float":
        f = pick(FLOATS, v)
        return (f, f)
    if kind == "pstr":
        s = pick(STRS, v)
        return (s, s)
    if kind == "pint":
        i = pick(INTS, v)
        return (i, i)
    if kind in ("array", "array_bi"):
        arr = []
        if v[0] >= 1:
            arr.append(v[1])
        if v[0] >= 2:
            arr.append(v[2])
        return (arr, arr)
    if kind in ("object", "object_bi"):
        keys = ("a", "b") if v[1] else ("b", "a")
        d = {}
        if v[0] >= 1:
            d[keys[0]] = v[2]
        if v[0] >= 2:
            d[keys[1]] = v[3]
        return (d, d)
    return (v, v)


def compare_direct(a: TA, op: int, b: TB) -> bool:
    """
    pre: OPLO <= op <= OPHI
    pre: _size_ok(KA, a) and _size_ok(KB, b)
    post: _
    """
    ra, oa = _mk(KA, a)
    rb, ob = _mk(KB, b)
    o = pick(OPS, op)
    got = ENV.compare(ra, o, rb)
    exp = oracle.compare(oa, o, ob)
    return ok(why(bool(got) == exp, "compare", ra, o, rb, "got", got, "rfc", exp))


# ---------------------------------------------------------------- through the pipeline
QUERY = P.get("query")
SPINE = P.get("spine", "objarr")
QTEXT = oracle.query_text(QUERY) if QUERY is not None else None
COMPILED = ENV.compile(QTEXT) if QTEXT is not None else None
MAXN = P.get("maxn", 2)
LEAFKIND = P.get("leaf", "leaf")
_LT = {"leaf": Leaf, "int": int, "optint": Optional[int], "intstr": Union[int, str], "boolint": Union[bool, int],
       "nbi": Union[None, bool, int]}
LT = _LT[LEAFKIND]
LT2 = _LT[P.get("leaf2", "int")]


def _check(doc: Any) -> bool:
    exp = oracle.evaluate(QUERY, doc)
    if P.get("route") == "async":  # the same semantics through the async entry point
        from vlib.hs import alist, drive

        ms = drive(alist(drive(COMPILED.finditer_async(doc))))
    else:
        ms = list(COMPILED.finditer(doc))
    if not why(len(ms) == len(exp), "count", [m.path for m in ms], [e[0] for e in exp]):
        return False
    for m, (parts, v) in zip(ms, exp):
        if not why(m.parts == parts, "parts", m.parts, parts):
            return False
        if isinstance(v, (list, dict)):
            if m.obj is not v:
                return False
        elif not same_json(m.obj, v):
            return False
    return True


def filt(l0: LT, l1: LT, l2: LT, l3: LT, n: int, b0: bool, b1: bool, b2: bool) -> bool:
    """
    pre: 0 <= n <= MAXN
    pre: small(l0, l1, l2, l3)
    post: _
    """
    doc = spines.build(SPINE, [l0, l1, l2, l3, l0, l1], n, [b0, b1, b2])
    return ok(_check(doc))


def filt_prims(l0: Leaf, l1: Leaf, n: int, inobj: bool) -> bool:
    """The candidates are primitives themselves (`@` bound to a primitive), in an array or an object.

    pre: 0 <= n <= 2
    pre: small(l0, l1)
    post: _
    """
    doc: Any
    if inobj:
        doc = {}
        if n >= 1:
            doc["a"] = l0
        if n >= 2:
            doc["b"] = l1
    else:
        doc = []
        if n >= 1:
            doc.append(l0)
        if n >= 2:
            doc.append(l1)
    return ok(_check({"k": l1, "xs": doc}))


def filt_pair(x: LT, y: LT, pa: bool, pb: bool, yy: LT2) -> bool:
    """`[{"a": x, "b": y}, {"a": yy}]` with symbolic member presence: both comparison operands as queries.

    pre: small(x, y, yy)
    post: _
    """
    first: Dict[str, Any] = {}
    if pa:
        first["a"] = x
    if pb:
        first["b"] = y
    doc = [first, {"a": yy}, [x]]
    return ok(_check(doc))


def filt_nested(x: LT, y: LT, k: LT, n: int) -> bool:
    """
    pre: 0 <= n <= 2
    pre: small(x, y, k)
    post: _
    """
    xs = [{"a": x}, {"a": y}]
    doc = {"k": k, "items": [{"xs": xs[:1] if n == 1 else (xs if n == 2 else [])}, {"xs": [{"a": k}]}]}
    return ok(_check(doc))


def filt_pstr(i: int, j: int, pa: bool, pb: bool) -> bool:
    """Regular-expression functions: subject and second operand are pooled strings or other kinds.

    pre: -2 <= i <= len(STRS)
    pre: -2 <= j <= len(STRS)
    post: _
    """
    def val(k: int) -> Any:
        if k == -2:
            return None
        if k == -1:
            return ["a"]
        if k == len(STRS):
            return 1
        return pick(STRS, k)

    first: Dict[str, Any] = {}
    if pa:
        first["a"] = val(i)
    if pb:
        first["b"] = val(j)
    # a candidate with a valid pattern first, then the symbolic candidate twice in a row (call-history effects)
    return ok(_check([{"a": "ab", "b": "a."}, first, dict(first), "a"]))
