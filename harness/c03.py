"""C03 harness: every match location (path, parts, pointer, parent) identifies exactly that node."""
from __future__ import annotations

import re
from typing import Any, Dict, List, Union

import jsonpath
from jsonpath import JSONPathEnvironment, JSONPointer

from vlib import spines
from vlib.hs import Leaf, P, kf, ok, pick, small, why

ENV = JSONPathEnvironment()
QTEXT = P.get("qtext", "$..*")
COMPILED = ENV.compile(QTEXT)
SPINE = P.get("spine", "nest1")
MAXN = P.get("maxn", 2)
IS = Union[int, str]
SIGMA = ["a", "'", '"', "\\", "/", "~", "0", "1", "", " ", "é", "\U0001F600", "\x01", "\n", "-", "u", "b", " ", "\x7f"][: P.get("sigma", 19)]
MAXS = P.get("maxs", 2)

# RFC 9535 2.7 normalized path
_NP = re.compile(
    r"\$(?:\[(?:0|[1-9][0-9]*)\]|\['(?:[\x20-\x26\x28-\x5b\x5d-\U0010ffff]|\\[btnfr'\\]|\\u00(?:0[0-7bef]|1[0-9a-f]))*'\])*\Z"
)


def _walk(doc: Any, parts: tuple) -> Any:
    cur = doc
    for p in parts:
        cur = cur[p]
    return cur


def _check_matches(doc: Any, ms: List[Any]) -> bool:
    for m in ms:
        if not why(_NP.match(m.path) is not None, "not a normalized path", m.path):
            return False
        # parts locate the node
        try:
            node = _walk(doc, m.parts)
        except (KeyError, IndexError, TypeError) as e:
            return why(False, "parts do not resolve", m.parts, type(e).__name__)
        if isinstance(m.obj, (list, dict)):
            if not why(node is m.obj, "parts lead elsewhere", m.path, m.parts):
                return False
        elif not why(type(node) is type(m.obj) and node == m.obj, "parts lead to another value", m.path):
            return False
        # the path, evaluated as a query, returns exactly that node
        try:
            back = list(ENV.compile(m.path).finditer(doc))
        except jsonpath.JSONPathError as e:
            return why(False, "reported path does not compile", m.path, str(e))
        if not why(len(back) == 1, "reported path selects", len(back), "nodes", m.path):
            return False
        if isinstance(m.obj, (list, dict)):
            if not why(back[0].obj is m.obj, "reported path selects another node", m.path):
                return False
        elif not why(type(back[0].obj) is type(m.obj) and back[0].obj == m.obj and back[0].parts == m.parts, "reported path selects another node", m.path):
            return False
        if not why(back[0].path == m.path, "path of path differs", m.path, back[0].path):
            return False
        # pointer and its text form
        ptr = m.pointer()
        text = str(ptr)
        for mode in range(3):
            if mode == 2 and "\\" in text and kf("C03-backslash-name-default-decoding"):
                continue  # listed known finding: the default escape decoding re-reads backslashes in the pointer's text form
            try:
                p = ptr if mode == 0 else (JSONPointer(text, unicode_escape=False) if mode == 1 else JSONPointer(text))
                got = p.resolve(doc)
            except jsonpath.JSONPointerError as e:
                return why(False, "pointer does not resolve", text, mode, type(e).__name__, str(e))
            if isinstance(m.obj, (list, dict)):
                if not why(got is m.obj, "pointer resolves elsewhere", text, mode):
                    return False
            elif not why(type(got) is type(m.obj) and got == m.obj, "pointer resolves to another value", text, mode, got):
                return False
        # parent is the match one step shorter
        # walk the whole parent chain: every link is the match one step shorter, down to the root
        cur = m
        while cur.parts:
            par = cur.parent
            if not why(par is not None and par.parts == cur.parts[:-1] and cur.path.startswith(par.path) and par.obj is _walk(doc, cur.parts[:-1]),
                       "parent chain", m.path, cur.path, None if par is None else par.path):
                return False
            cur = par
        if not why(cur.parent is None and cur.path == "$" and cur.obj is doc, "chain does not end at the root match", m.path):
            return False
    # equal paths iff same node
    for i in range(len(ms)):
        for j in range(i + 1, len(ms)):
            if not why((ms[i].path == ms[j].path) == (ms[i].parts == ms[j].parts), "path equality vs node identity", ms[i].path, ms[j].path):
                return False
    return True


def locations(l0: IS, l1: IS, l2: int, l3: int, n: int, b0: bool, b1: bool, b2: bool) -> bool:
    """
    pre: 0 <= n <= MAXN
    pre: small(l0, l1)
    post: _
    """
    doc = spines.build(SPINE, [l0, l1, l2, l3, l0, l1], n, [b0, b1, b2])
    ms = list(COMPILED.finditer(doc))
    return ok(_check_matches(doc, ms))


def _sig(i: int, j: int, n: int) -> str:
    s = ""
    if n >= 1:
        s += pick(SIGMA, i)
    if n >= 2:
        s += pick(SIGMA, j)
    return s


QUERIES_NAMES = ["$.*", "$..*", "$[?@ == 1]", "$..[?@]", "$.*.*"]


DOUBLES = ["-0", "\x1b[", "\x0b\x1f", "a\\", "\\'", "'\\", '\\"', "/~", "~1", "\\\\", "\\n", "''", '""', "\"'", "01", "é\U0001F600", "\x01\\", " \\", "\\u"]
NAMEPOOL = (SIGMA + DOUBLES)[: P.get("namepool", 40)]
QI = P.get("qi", 0)


def names(k: int, v: int) -> bool:
    """Member names over the alphabet Sigma plus curated two-character names (quotes, backslash, control characters, '/',
    '~', digits, non-BMP) reached by wildcard, descendant and filter selectors, and by a name selector spelled with the
    canonical escape.

    pre: 0 <= k < len(NAMEPOOL)
    post: _
    """
    t = pick(NAMEPOOL, k)
    doc = {t: 1, "zz": {t: [v, {t: 2}]}}
    if QI == len(QUERIES_NAMES):
        from vlib import oracle

        q = "$[" + oracle.quote(t, "'") + "]"
        try:
            ms = list(ENV.finditer(q, doc))
        except jsonpath.JSONPathError as e:
            return ok(why(False, "canonical name selector does not compile", q, str(e)))
        if not why(len(ms) == 1 and ms[0].parts == (t,), "name selector", q, [m.parts for m in ms]):
            return ok(False)
    else:
        if P.get("route") == "async":
            from vlib.hs import alist, drive

            ms = drive(alist(drive(ENV.finditer_async(QUERIES_NAMES[QI], doc))))
        else:
            ms = list(ENV.finditer(QUERIES_NAMES[QI], doc))
    return ok(_check_matches(doc, ms))
