"""C11 harness: all query entry points agree with one another on every input."""
from __future__ import annotations

import io
import json
from typing import Any, Dict, List, Union

import jsonpath
from jsonpath import JSONPathEnvironment

from vlib import spines
from vlib.hs import Leaf, P, alist, drive, kf, ok, pick, small, why

ENV = JSONPathEnvironment()
OPERANDS: List[str] = P.get("operands", ["$.*"])
OPS: List[str] = P.get("ops", [])
QTEXT = OPERANDS[0] + "".join(f" {o} {q}" for o, q in zip(OPS, OPERANDS[1:]))
SPINE = P.get("spine", "obj2")
COMPILED = ENV.compile(QTEXT)
PARTS = [ENV.compile(q) for q in OPERANDS]
MAXN = P.get("maxn", 2)
_LT = {"leaf": Leaf, "int": int, "intstr": Union[int, str], "nbi": Union[None, bool, int], "boolint": Union[bool, int]}
LT = _LT[P.get("leaf", "boolint")]
LT2 = _LT[P.get("leaf2", "int")]
POOL = [None, True, 0, "a", 1, "é", False, -1, "", "1", 1.5, " ", '"', "\\"][: P.get("pooln", 6)]


def _is(a: Any, b: Any) -> bool:
    if isinstance(b, (list, dict)):
        return a is b
    return type(a) is type(b) and a == b


def _reference(doc: Any) -> List[Any]:
    """Union = left then right; intersection = left restricted to values also produced by right; folded left to right."""
    res = list(PARTS[0].findall(doc))
    for op, p in zip(OPS, PARTS[1:]):
        right = p.findall(doc)
        if op == "|":
            res = res + right
        else:
            res = [x for x in res if any(x == y for y in right)]
    return res


def _agree(doc: Any) -> bool:
    ms = list(COMPILED.finditer(doc))
    fa = COMPILED.findall(doc)
    if not why(len(fa) == len(ms) and all(_is(v, m.obj) for v, m in zip(fa, ms)), "findall != values of finditer",
               fa, [m.obj for m in ms]):
        return False
    ref = _reference(doc)
    if not why(len(ref) == len(fa) and all(_is(v, r) for v, r in zip(fa, ref)), "compound definition", fa, ref):
        return False
    m = COMPILED.match(doc)
    if ms:
        if not why(m is not None and _is(m.obj, ms[0].obj) and m.path == ms[0].path, "match is not the first"):
            return False
    elif not why(m is None, "match on empty"):
        return False
    qv = list(COMPILED.query(doc).values())
    if not why(len(qv) == len(fa) and all(_is(a, b) for a, b in zip(qv, fa)), "query values"):
        return False
    # environment-level forms
    e_fa = ENV.findall(QTEXT, doc)
    e_it = [x.obj for x in ENV.finditer(QTEXT, doc)]
    e_m = ENV.match(QTEXT, doc)
    e_q = [x.obj for x in ENV.query(QTEXT, doc)]
    for name, lst in (("env.findall", e_fa), ("env.finditer", e_it), ("env.query", e_q)):
        if not why(len(lst) == len(fa) and all(_is(a, b) for a, b in zip(lst, fa)), name):
            return False
    if not why((e_m is None) == (m is None) and (m is None or _is(e_m.obj, m.obj)), "env.match"):
        return False
    # module-level convenience functions are the default environment's methods
    j_fa = jsonpath.findall(QTEXT, doc)
    if not why(len(j_fa) == len(fa) and all(_is(a, b) for a, b in zip(j_fa, fa)), "jsonpath.findall"):
        return False
    return True


def entry(l0: LT, l1: LT, l2: LT2, l3: LT2, n: int, b0: bool, b1: bool, b2: bool) -> bool:
    """
    pre: 0 <= n <= MAXN
    pre: small(l0, l1, l2, l3)
    post: _
    """
    doc = spines.build(SPINE, [l0, l1, l2, l3, l0, l1], n, [b0, b1, b2])
    return ok(_agree(doc))


def forms(i0: int, i1: int, n: int, b0: bool) -> bool:
    """Parsed value vs JSON text vs readable file (leaves pooled: json.dumps concretises the document).

    pre: 0 <= i0 < len(POOL) and 0 <= i1 < len(POOL)
    pre: 0 <= n <= MAXN
    post: _
    """
    L = [pick(POOL, i0), pick(POOL, i1), 1]
    doc = spines.build(SPINE, L + L, n, [b0, True, True])
    text = json.dumps(doc)
    base = COMPILED.findall(doc)
    from_text = COMPILED.findall(text)
    from_file = COMPILED.findall(io.StringIO(text))
    e_text = ENV.findall(QTEXT, text)
    it_text = [m.obj for m in COMPILED.finditer(text)]
    it_file = [m.obj for m in ENV.finditer(QTEXT, io.StringIO(text))]
    m_text = COMPILED.match(text)
    q_file = list(ENV.query(QTEXT, io.StringIO(text)).values())
    first = [base[0]] if base else []
    agree = (
        why(from_text == base, "text", from_text, base) and why(from_file == base, "file") and e_text == base
        and it_text == base and it_file == base and q_file == base
        and ([m_text.obj] if m_text is not None else []) == first
    )
    return ok(agree)


def forms_history(i0: int, i1: int, n: int, b0: bool) -> bool:
    """Blank-space-led text, the async entry points on text / file / bytes, and call history on one text.

    pre: 0 <= i0 < len(POOL) and 0 <= i1 < len(POOL)
    pre: 0 <= n <= MAXN
    post: _
    """
    L = [pick(POOL, i0), pick(POOL, i1), 1]
    doc = spines.build(SPINE, L + L, n, [b0, True, True])
    text = json.dumps(doc)
    base = COMPILED.findall(doc)
    from_text = COMPILED.findall(text)
    if not why(from_text == base, "text", from_text, base):
        return ok(False)
    # JSON text may start with blank space; the async entry points read text and files the same way
    padded = pick(["\n ", " ", "\t\r\n"], i0 % 3) + json.dumps(doc, indent=1 if b0 else None) + "\n"
    if not why(COMPILED.findall(padded) == base and COMPILED.findall(io.StringIO(padded)) == base, "blank-space-led JSON text", padded):
        return ok(False)
    a_text = drive(COMPILED.findall_async(text))
    a_file = drive(COMPILED.findall_async(io.StringIO(text)))
    a_bytes = drive(alist(drive(COMPILED.finditer_async(io.BytesIO(text.encode("utf-8"))))))
    if not why(a_text == base and a_file == base and [m.obj for m in a_bytes] == base, "async on text / file", a_text, a_file):
        return ok(False)
    # history: results obtained from the text are the caller's to modify; a second call on the same text starts afresh
    for v in from_text:
        if isinstance(v, list):
            v.append("mut")
        elif isinstance(v, dict):
            v["mut"] = 1
    again = COMPILED.findall(text)
    return ok(why(again == base, "second call on the same JSON text sees the first call's results", again, base))
