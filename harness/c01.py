"""C01 harness: RFC 9535 segments and selectors yield exactly the specified nodelist."""
from __future__ import annotations

from collections.abc import Sequence
from typing import Any, Dict, List, Optional, Union

import jsonpath
from jsonpath import JSONPathEnvironment
from jsonpath.path import JSONPath
from jsonpath.selectors import IndexSelector, ListSelector, SliceSelector
from jsonpath.token import Token

from vlib import oracle, spines
from vlib.hs import Leaf, P, kf, ok, same_nodes, small, why
from vlib.stubs import Arr, PySlice

ENV = JSONPathEnvironment()
IS = Union[int, str]  # selectors only distinguish string / other primitive / container
TOK = Token("INT", "0", 2, "$[0]")
MAXI = ENV.max_int_index
MINI = ENV.min_int_index

QUERY = P.get("query")  # AST (oracle format) for the generic condition
SPINE = P.get("spine", "arr")
QTEXT = oracle.query_text(QUERY) if QUERY is not None else None
COMPILED = ENV.compile(QTEXT) if QTEXT is not None else None
MAXN = P.get("maxn", 3)
MAXLEN = P.get("maxlen", 4)
STEPLO, STEPHI = P.get("steplo", -3), P.get("stephi", 3)


def _nodes_ok(ms: List[Any], exp: List[Any], root: str = "$") -> bool:
    if not why(len(ms) == len(exp), "count", len(ms), len(exp)):
        return False
    for m, (parts, v) in zip(ms, exp):
        if isinstance(v, (list, dict, Arr)):
            if not why(m.obj is v, "identity", m.path):
                return False
        elif not why(type(m.obj) is type(v) and m.obj == v, "value", m.obj, v):
            return False
        if not why(m.parts == parts, "parts", m.parts, parts):
            return False
    return True


def index_array(arr: List[int], i: int) -> bool:
    """
    pre: len(arr) <= MAXLEN
    pre: MINI <= i <= MAXI
    post: _
    """
    p = JSONPath(env=ENV, selectors=[ListSelector(env=ENV, token=TOK, items=[IndexSelector(env=ENV, token=TOK, index=i)])])
    ms = list(p.finditer(arr))
    n = len(arr)
    if -n <= i < n:
        j = i if i >= 0 else n + i
        return ok(
            len(ms) == 1 and ms[0].obj == arr[j] and ms[0].parts == (j,) and ms[0].path == "$[" + str(j) + "]"
            and p.findall(arr) == [arr[j]]
        )
    return ok(ms == [] and p.findall(arr) == [])


def index_object(i: int, p0: bool, p1: bool, p2: bool, p3: bool, v0: int, v1: int, v2: int, v3: int) -> bool:
    """
    pre: -3 <= i <= 3
    post: _
    """
    doc: Dict[str, Any] = {}
    if p3:
        doc["01"] = v3
    if p0:
        doc["0"] = v0
    if p2:
        doc["-1"] = v2
    if p1:
        doc["1"] = v1
    p = JSONPath(env=ENV, selectors=[IndexSelector(env=ENV, token=TOK, index=i)])
    got = [(m.parts, m.obj) for m in p.finditer(doc)]
    exp = oracle.evaluate([["child", [["index", i]]]], doc)
    return ok(len(got) == len(exp) and all(g[0] == e[0] and g[1] == e[1] for g, e in zip(got, exp)))


def slice_array(arr: List[int], start: Optional[int], stop: Optional[int], step: Optional[int]) -> bool:
    """
    pre: len(arr) <= MAXLEN
    pre: start is None or MINI <= start <= MAXI
    pre: stop is None or MINI <= stop <= MAXI
    pre: step is None or STEPLO <= step <= STEPHI
    post: _
    """
    sel = SliceSelector(env=ENV, token=TOK, start=start, stop=stop, step=step)
    real = sel.slice  # what the constructor stored; the stub only replaces the C object's indices() arithmetic
    sel.slice = PySlice(real.start, real.stop, real.step)
    p = JSONPath(env=ENV, selectors=[sel])
    doc = Arr(arr)
    ms = list(p.finditer(doc))
    idx = oracle.slice_indices(len(arr), start, stop, step)
    if not why(len(ms) == len(idx), "count", len(ms), idx):
        return ok(False)
    for m, j in zip(ms, idx):
        if not (m.obj == arr[j] and m.parts == (j,) and m.path == "$[" + str(j) + "]"):
            return ok(False)
    return ok(True)


def wrong_kind(leaf: Leaf, i: int, start: Optional[int], stop: Optional[int], step: Optional[int], which: int) -> bool:
    """
    pre: -2 <= i <= 2
    pre: start is None or -2 <= start <= 2
    pre: stop is None or -2 <= stop <= 3
    pre: step is None or -2 <= step <= 2
    pre: 0 <= which <= 5
    pre: small(leaf)
    post: _
    """
    doc = {"a": leaf, "b": [leaf]}
    sels: List[Any]
    if which == 0:
        sels = [IndexSelector(env=ENV, token=TOK, index=i)]
    elif which == 1:
        s = SliceSelector(env=ENV, token=TOK, start=start, stop=stop, step=step)
        sels = [s]
    elif which == 2:
        sels = list(ENV.compile("$.*").selectors)
    elif which == 3:
        sels = list(ENV.compile("$['a', 'b', '0', '']").selectors)
    elif which == 4:
        sels = list(ENV.compile("$..*").selectors)
    else:
        sels = list(ENV.compile("$..['a', 0, *, ::1]").selectors)
    res = []
    for pre_ in ("$.a", "$.b[0]"):
        p = JSONPath(env=ENV, selectors=list(ENV.compile(pre_).selectors) + sels)
        res.append(p.findall(doc))
    return ok(why(res == [[], []], "selected from a primitive", res))


def wrong_container(which: int, i: int, v0: Leaf, v1: Leaf) -> bool:
    """
    pre: 0 <= which <= 2
    pre: -3 <= i <= 3
    post: _
    """
    if which == 0:  # slice applied to an object selects nothing
        doc: Any = {"a": {"0": v0, "1": v1}}
        got = ENV.findall("$.a[0:2]", doc) + ENV.findall("$.a[::-1]", doc) + ENV.findall("$.a[:]", doc)
        return ok(got == [])
    if which == 1:  # name applied to an array selects nothing
        doc = {"a": [v0, v1]}
        got = ENV.findall("$.a.a", doc) + ENV.findall("$.a['0']", doc) + ENV.findall("$.a['1', 'length']", doc)
        return ok(got == [])
    # index on a nested array vs the oracle
    doc = {"a": [v0, v1]}
    p = JSONPath(env=ENV, selectors=list(ENV.compile("$.a").selectors) + [IndexSelector(env=ENV, token=TOK, index=i)])
    exp = oracle.evaluate([["child", [["name", "a"]]], ["child", [["index", i]]]], doc)
    return ok(_nodes_ok(list(p.finditer(doc)), exp))


def generic(l0: IS, l1: IS, l2: IS, l3: int, l4: int, l5: int, n: int, b0: bool, b1: bool, b2: bool) -> bool:
    """
    pre: 0 <= n <= MAXN
    pre: small(l0, l1, l2)
    post: _
    """
    doc = spines.build(SPINE, [l0, l1, l2, l3, l4, l5], n, [b0, b1, b2])
    exp = oracle.evaluate(QUERY, doc)
    if P.get("route") == "async":  # the nodelist through the async entry point
        from vlib.hs import alist, drive

        ms = drive(alist(drive(COMPILED.finditer_async(doc))))
    else:
        ms = list(COMPILED.finditer(doc))
    if not _nodes_ok(ms, exp):
        return ok(False)
    vals = COMPILED.findall(doc)
    return ok(len(vals) == len(exp) and all(a is b[1] or (not isinstance(b[1], (list, dict)) and a == b[1]) for a, b in zip(vals, exp)))
