"""C05 harness: JSON Patch application conforms to RFC 6902 for every document and patch."""
from __future__ import annotations

import copy
from typing import Any, Dict, List, Optional, Union

from jsonpath import JSONPatch, JSONPointer
from jsonpath.exceptions import JSONPatchError, JSONPatchTestFailure

from vlib import oracle_ptr as O
from vlib.hs import Leaf, P, kf, ok, pick, same_json, small, why

OPS: List[Dict[str, Any]] = P.get("ops", [{"op": "add", "path": ["a", "$i"], "value": "$v"}])
MAXN = P.get("maxn", 3)
_LT = {"leaf": Leaf, "int": int, "boolint": Union[bool, int], "nbi": Union[None, bool, int]}
LT = _LT[P.get("leaf", "int")]
VT = _LT[P.get("vleaf", "int")]


DOCKIND = P.get("doc", 0)
KEYS = ["c", "d", ""]
SV = ["ab", "a", "", "b"]


def mkdoc(l0: Any, l1: Any, l2: Any, l3: Any, n: int) -> Any:
    if DOCKIND == 1:
        # an array of containers: moving an element changes what later indices denote
        arr2: List[Any] = []
        if n >= 1:
            arr2.append({"p": l0})
        if n >= 2:
            arr2.append([l1])
        if n >= 3:
            arr2.append({"q": l2, "p": [l3]})
        return {"a": arr2, "b": {"c": l3}}
    arr = []
    if n >= 1:
        arr.append(l0)
    if n >= 2:
        arr.append(l1)
    if n >= 3:
        arr.append(l2)
    return {"a": arr, "b": {"c": l3, "1": [l0]}, "1": l1, "ab": {"z": l2}}


def _subst(x: Any, i: int, j: int, v: Any, w: Any) -> Any:
    if isinstance(x, list):
        return [_subst(e, i, j, v, w) for e in x]
    if isinstance(x, dict):
        return {(_subst(k, i, j, v, w) if isinstance(k, str) and k.startswith("$k") else k): _subst(e, i, j, v, w) for k, e in x.items()}
    if x == "$i":
        return i
    if x == "$j":
        return j
    if x == "$v":
        return v
    if x == "$w":
        return w
    if x == "$vc":
        return [v, {"k": w}]
    if x == "$sv":  # a string ...
        return pick(SV, (i if isinstance(i, int) else 0) % len(SV))
    if x == "$cv":  # ... and an array of one-character strings
        return [c for c in pick(SV, (j if isinstance(j, int) else 0) % len(SV))]
    if x == "$is":  # the same index, spelled as a string token (the route JSONPointer.from_parts takes)
        return pick(["0", "1", "2", "3", "4", "5"], i) if isinstance(i, int) else "0"
    if x == "$ki":
        return pick(KEYS, i % len(KEYS)) if isinstance(i, int) else "c"
    if x == "$kj":
        return pick(KEYS, j % len(KEYS)) if isinstance(j, int) else "c"
    return x


def _ptr(tokens: List[Any]) -> JSONPointer:
    return JSONPointer("", parts=tuple(tokens))


def _build(ops: List[Dict[str, Any]]) -> JSONPatch:
    p = JSONPatch()
    for o in ops:
        k = o["op"]
        if k == "add":
            p.add(_ptr(o["path"]), o["value"])
        elif k == "remove":
            p.remove(_ptr(o["path"]))
        elif k == "replace":
            p.replace(_ptr(o["path"]), o["value"])
        elif k == "move":
            p.move(_ptr(o["from"]), _ptr(o["path"]))
        elif k == "copy":
            p.copy(_ptr(o["from"]), _ptr(o["path"]))
        else:
            p.test(_ptr(o["path"]), o["value"])
    return p


def apply_ops(l0: LT, l1: LT, l2: int, l3: LT, n: int, i: int, j: int, v: VT, w: VT) -> bool:
    """The operation list OPS (indices/values symbolic) applied to a symbolic document equals RFC 6902 section 4.

    pre: 0 <= n <= MAXN
    pre: 0 <= i <= n + 2 and 0 <= j <= n + 2
    pre: small(l0, l1, l3, v, w)
    post: _
    """
    ops = _subst(OPS, i, j, v, w)
    doc = mkdoc(l0, l1, l2, l3, n)
    ref_doc = mkdoc(l0, l1, l2, l3, n)
    try:
        exp = O.apply(ref_doc, copy.deepcopy(ops) if P.get("deepcopy_ops") else ops)
        exp_err = None
    except O.TestFailed:
        exp, exp_err = None, "test"
    except O.PatchError:
        exp, exp_err = None, "patch"
    patch = _build(ops)
    try:
        got = patch.apply(doc)
        got_err = None
    except JSONPatchTestFailure as e:
        str(e)
        got, got_err = None, "test"
    except JSONPatchError as e:
        str(e)
        got, got_err = None, "patch"
    # a failed test on an existing target must be the dedicated test-failure kind; an operation the RFC cannot
    # perform (missing target ...) must be a patch error (the test-failure kind is a patch error too)
    same_outcome = (got_err is None) == (exp_err is None) and (exp_err != "test" or got_err == "test") and (
        got_err != "test" or any(o["op"] == "test" for o in ops))
    if not why(same_outcome, "outcome", ops, "real", got_err, got, "rfc", exp_err, exp):
        return ok(False)
    if exp_err is None:
        if not why(same_json(got, exp), "result", ops, got, exp):
            return ok(False)
        if P.get("twice"):
            # the result depends on the patch document and the target alone: the same patch object, applied again to an
            # equal document after the first result has been edited by the patch's own later operations, gives the same
            got2 = patch.apply(mkdoc(l0, l1, l2, l3, n))
            return ok(why(same_json(got2, exp), "second application of the same patch object", ops, got2, exp))
    return ok(True)


def copy_independent(l0: int, l1: int, n: int, which: int, v: int) -> bool:
    """A copied value is independent of its source: mutate the copy with a second op, the source is unchanged.

    pre: 1 <= n <= 2
    pre: 0 <= which <= 2
    post: _
    """
    doc = {"src": {"k": [l0, l1][:n], "m": {"x": l0}}, "arr": []}
    if which == 0:
        p = JSONPatch().copy("/src", "/dst").add("/dst/k/0", v).replace("/dst/m/x", v)
    elif which == 1:
        p = JSONPatch().copy("/src/k", "/arr/-").add("/arr/0/-", v)
    else:
        p = JSONPatch().copy("/src", "/arr/0").remove("/arr/0/m/x").add("/arr/0/k/-", v)
    out = p.apply(doc)
    return ok(why(same_json(out["src"], {"k": [l0, l1][:n], "m": {"x": l0}}), "source changed", out))


def text_twice(n: int, which: int, v: int) -> bool:
    """The target document given as JSON text: every application starts from the text, so a second application of a patch
    to the same text gives the same result as the first (and as applying it to the parsed text).

    pre: 0 <= n <= 2
    pre: 0 <= which <= 3
    post: _
    """
    import json

    arr = [10, 20]
    text = json.dumps({"a": arr[:1] if n == 1 else (arr if n == 2 else []), "b": {"c": 1}})
    if which == 0:
        p = JSONPatch().add("/a/-", v).replace("/b/c", v)
    elif which == 1:
        p = JSONPatch().remove("/b/c").add("/b/d", [v])
    elif which == 2:
        p = JSONPatch().add("/a/0", v).test("/a/0", v)
    else:
        p = JSONPatch().move("/b", "/a/-").add("/n", v)
    exp = p.apply(json.loads(text))
    first = p.apply(text)
    try:
        second = p.apply(text)
    except JSONPatchError as e:
        return ok(why(False, "second application to the same text failed", text, str(e)))
    return ok(why(same_json(first, exp), "application to JSON text", first, exp) and why(same_json(second, exp), "second application to the same JSON text", second, exp))
