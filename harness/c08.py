"""C08 harness: the async API returns exactly what the sync API returns."""
from __future__ import annotations

from collections.abc import Mapping, Sequence
from typing import Any, Dict, List, Optional, Union

import io
import json

import jsonpath
from jsonpath import JSONPathEnvironment

from vlib import spines
from vlib.hs import Leaf, P, alist, drive, kf, ok, pick, small, why

ENV = JSONPathEnvironment()
QTEXT = P.get("qtext", "$.*")
SPINE = P.get("spine", "nest1")
COMPILED = ENV.compile(QTEXT)
MAXN = P.get("maxn", 2)
CTX = P.get("ctx", {"k": 1, "a": "a"})
_LT = {"leaf": Leaf, "int": int, "intstr": Union[int, str], "nbi": Union[None, bool, int]}
LT = _LT[P.get("leaf", "intstr")]
LT2 = _LT[P.get("leaf2", "intstr")]
ROT = P.get("rot", 0)
GETTER = P.get("getter", "none")  # none | async | suspend
SCHED = P.get("sched", 4)


class Suspend:
    def __await__(self):  # noqa: ANN204
        yield None
        return None


class AArr(Sequence):
    """Sequence with an asynchronous item getter returning the same items."""

    def __init__(self, items: List[Any]) -> None:
        self.items = items

    def __len__(self) -> int:
        return len(self.items)

    def __getitem__(self, i: Any) -> Any:
        return self.items[i]

    async def __getitem_async__(self, i: Any) -> Any:
        if GETTER == "suspend":
            await Suspend()
        return self.items[i]


class AObj(Mapping):
    def __init__(self, d: Dict[str, Any]) -> None:
        self.d = d

    def __len__(self) -> int:
        return len(self.d)

    def __iter__(self):  # noqa: ANN204
        return iter(self.d)

    def __getitem__(self, k: Any) -> Any:
        return self.d[k]

    async def __getitem_async__(self, k: Any) -> Any:
        if GETTER == "suspend":
            await Suspend()
        return self.d[k]


def wrap(x: Any) -> Any:
    if isinstance(x, list):
        return AArr([wrap(i) for i in x])
    if isinstance(x, dict):
        return AObj({k: wrap(v) for k, v in x.items()})
    return x


def _sig(ms: List[Any]) -> List[Any]:
    return [(m.path, m.parts) for m in ms]


def _same(sync_ms: List[Any], async_ms: List[Any]) -> bool:
    if not why(len(sync_ms) == len(async_ms), "count", [m.path for m in sync_ms], [m.path for m in async_ms]):
        return False
    for a, b in zip(sync_ms, async_ms):
        if a.path != b.path or a.parts != b.parts:
            return why(False, "location", a.path, b.path)
        if isinstance(a.obj, (list, dict, AArr, AObj)):
            if a.obj is not b.obj:
                return why(False, "identity", a.path)
        elif not (type(a.obj) is type(b.obj) and a.obj == b.obj):
            return why(False, "value", a.obj, b.obj)
    return True


def _both(doc: Any) -> bool:
    s_err = a_err = None
    s_ms: List[Any] = []
    a_ms: List[Any] = []
    try:
        s_ms = list(COMPILED.finditer(doc, filter_context=CTX))
        s_vals = COMPILED.findall(doc, filter_context=CTX)
    except Exception as e:  # noqa: BLE001
        s_err = type(e).__name__
    try:
        a_ms = drive(alist(drive(COMPILED.finditer_async(doc, filter_context=CTX))))
        a_vals = drive(COMPILED.findall_async(doc, filter_context=CTX))
    except Exception as e:  # noqa: BLE001
        a_err = type(e).__name__
    if s_err or a_err:
        return why(s_err == a_err, "errors differ", s_err, a_err)
    if not _same(s_ms, a_ms):
        return False
    if not why(len(s_vals) == len(a_vals) == len(s_ms), "findall lengths"):
        return False
    for v, w, m in zip(s_vals, a_vals, s_ms):
        if isinstance(m.obj, (list, dict, AArr, AObj)):
            if not (v is m.obj and w is m.obj):
                return why(False, "findall identity")
        elif not (v == m.obj and w == m.obj):
            return why(False, "findall value")
    return True


def async_eq(l0: LT, l1: LT2, l2: int, l3: int, n: int, b0: bool, b1: bool, b2: bool) -> bool:
    """
    pre: 0 <= n <= MAXN
    pre: small(l0, l1)
    post: _
    """
    L = [l0, l1, l2, l3]
    L = L[ROT:] + L[:ROT]
    doc = spines.build(SPINE, L + L[:2], n, [b0, b1, b2])
    if GETTER != "none":
        doc = wrap(doc)
    return ok(_both(doc))


def _advance(it: Any) -> Any:
    try:
        return drive(it.__anext__())
    except StopAsyncIteration:
        return None


def schedule(l0: LT, l1: LT, m0: LT, m1: LT, n: int, s0: bool, s1: bool, s2: bool, s3: bool, s4: bool, s5: bool) -> bool:
    """Two evaluations of one compiled query advanced in an order chosen by symbolic booleans.

    pre: 0 <= n <= MAXN
    pre: small(l0, l1, m0, m1)
    post: _
    """
    # distinct leaves at the positions the catalogue's filters compare, and at least two candidates in the first document,
    # so that a value cached for one evaluation and used by the other is visible
    d1 = spines.build(SPINE, [l0, l1, l1, l0, l0, l1], max(n, 2) if SPINE == "objarr" else n, [True, s0, True])
    d2 = spines.build(SPINE, [m0, m1, m1, m0, m1, m0], MAXN - n if SPINE != "objarr" else 1 + (MAXN - n) % 2, [s1, True, False])
    solo1 = list(COMPILED.finditer(d1, filter_context=CTX))
    solo2 = list(COMPILED.finditer(d2, filter_context=CTX))
    it1 = drive(COMPILED.finditer_async(d1, filter_context=CTX))
    it2 = drive(COMPILED.finditer_async(d2, filter_context=CTX))
    got1: List[Any] = []
    got2: List[Any] = []
    done1 = done2 = False
    for s in [s0, s1, s2, s3, s4, s5][:SCHED]:
        if s and not done1:
            m = _advance(it1)
            if m is None:
                done1 = True
            else:
                got1.append(m)
        elif not done2:
            m = _advance(it2)
            if m is None:
                done2 = True
            else:
                got2.append(m)
    while not done1:
        m = _advance(it1)
        if m is None:
            done1 = True
        else:
            got1.append(m)
    while not done2:
        m = _advance(it2)
        if m is None:
            done2 = True
        else:
            got2.append(m)
    return ok(_same(solo1, got1) and _same(solo2, got2))


FPOOL = [None, "a", 1, {"a": 1}, "é", []][: P.get("fpool", 4)]


def forms(i0: int, i1: int, n: int, form: int) -> bool:
    """The document as JSON text / text file / binary file: the four entry points (sync and async) agree with the parsed document.

    pre: 0 <= i0 < len(FPOOL) and 0 <= i1 < len(FPOOL)
    pre: 0 <= n <= MAXN
    pre: 0 <= form <= 2
    post: _
    """
    L = [pick(FPOOL, i0), pick(FPOOL, i1), 1, 2]
    doc = spines.build(SPINE, L + L[:2], n, [True, True, True])
    text = json.dumps(doc)

    def mk() -> Any:
        if form == 0:
            return text
        if form == 1:
            return io.StringIO(text)
        return io.BytesIO(text.encode("utf-8"))

    base = COMPILED.findall(doc, filter_context=CTX)
    calls = [
        ("findall", lambda: COMPILED.findall(mk(), filter_context=CTX)),
        ("finditer", lambda: [m.obj for m in COMPILED.finditer(mk(), filter_context=CTX)]),
        ("findall_async", lambda: drive(COMPILED.findall_async(mk(), filter_context=CTX))),
        ("finditer_async", lambda: [m.obj for m in drive(alist(drive(COMPILED.finditer_async(mk(), filter_context=CTX))))]),
    ]
    for name, call in calls:
        try:
            got = call()
        except Exception as e:  # noqa: BLE001
            return ok(why(False, name, "raised on document form", form, type(e).__name__, str(e)))
        if not why(got == base, name, "differs on document form", form, got, base):
            return ok(False)
    return ok(True)


def reuse(l0: LT, l1: LT2, l2: int, n: int, ck1: int, ck2: int, edit: bool) -> bool:
    """One compiled query awaited twice on ONE document object - under another filter context, and after an in-place edit of
    the document - still answers like the synchronous call at that moment.

    pre: 0 <= n <= MAXN
    pre: small(l0, l1)
    post: _
    """
    doc = spines.build(SPINE, [l0, l1, l2, ck1, l0, l1], n, [True, True, True])
    c1, c2 = {"k": ck1, "a": "a"}, {"k": ck2, "a": "a"}
    first = drive(alist(drive(COMPILED.finditer_async(doc, filter_context=c1))))
    if not _same(list(COMPILED.finditer(doc, filter_context=c1)), first):
        return ok(False)
    if edit and isinstance(doc, list) and doc and isinstance(doc[0], dict):
        doc[0]["a"] = ck2
    second = drive(alist(drive(COMPILED.finditer_async(doc, filter_context=c2))))
    return ok(why(_same(list(COMPILED.finditer(doc, filter_context=c2)), second), "second await on the same document object", QTEXT))
