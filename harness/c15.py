"""C15 harness: a patch is a faithful, reusable value - document, builder and dict forms agree."""
from __future__ import annotations

import copy
from typing import Any, Dict, List, Union

from jsonpath import JSONPatch
from jsonpath.exceptions import JSONPatchError

from vlib import oracle_ptr as O
from vlib.hs import Leaf, P, kf, ok, pick, same_json, small, why

OPS: List[Dict[str, Any]] = P.get("ops", [{"op": "add", "path": ["a", "$i"], "value": "$v"}])
OPTS: Dict[str, Any] = P.get("opts", {})  # JSONPatch(..., unicode_escape=, uri_decode=)
RAWPATHS: List[str] = P.get("rawpaths", [])  # pointer texts on which the options make a difference
IDX = [0, 1, 2, 3, "-"]
_LT = {"leaf": Leaf, "int": int, "boolint": Union[bool, int], "nbi": Union[None, bool, int], "optint": Union[None, int]}
VT = _LT[P.get("vleaf", "int")]


def mkdoc(l0: Any, l1: Any, n: int) -> Any:
    arr = []
    if n >= 1:
        arr.append(l0)
    if n >= 2:
        arr.append(l1)
    return {"a": arr, "b": {"c": l1, "1": l0}, "k": l0, "0": l1}


def _subst(x: Any, i: Any, v: Any, w: Any) -> Any:
    if isinstance(x, list):
        return [_subst(e, i, v, w) for e in x]
    if isinstance(x, dict):
        return {k: _subst(e, i, v, w) for k, e in x.items()}
    if x == "$i":
        return i
    if x == "$v":
        return v
    if x == "$w":
        return w
    if x == "$vc":
        return {"x": [v], "y": w}
    if x == "$vl":
        return [v, [w]]
    return x


def _dicts(ops: List[Dict[str, Any]]) -> List[Dict[str, Any]]:
    out = []
    for o in ops:
        d: Dict[str, Any] = {"op": o["op"]}
        if "from" in o:
            d["from"] = O.spell([str(t) for t in o["from"]])
        d["path"] = O.spell([str(t) for t in o["path"]])
        if "value" in o:
            d["value"] = o["value"]
        out.append(d)
    return out


def _builder(ds: List[Dict[str, Any]]) -> JSONPatch:
    p = JSONPatch(**OPTS)
    for d in ds:
        k = d["op"]
        if k in ("add", "addne", "addap", "replace", "test"):
            getattr(p, k)(d["path"], d["value"])
        elif k == "remove":
            p.remove(d["path"])
        else:
            getattr(p, k)(d["from"], d["path"])
    return p


def _apply(p: JSONPatch, doc: Any) -> Any:
    try:
        return ("ok", p.apply(doc))
    except JSONPatchError as e:
        str(e)
        return ("err", None)


def _same_dicts(a: List[Dict[str, Any]], b: List[Dict[str, Any]]) -> bool:
    if len(a) != len(b):
        return False
    for x, y in zip(a, b):
        if sorted(x.keys()) != sorted(y.keys()):
            return False
        for k in x:
            if k == "value":
                if not same_json(x[k], y[k]):
                    return False
            elif x[k] != y[k]:
                return False
    return True


def faithful(l0: int, l1: int, n: int, ii: int, v: VT, w: VT) -> bool:
    """Dict form, builder chain and the patch's own asdicts() give patches that print the same dicts and have the same
    effect; applying never changes the patch or the caller's list; repeated application gives equal, independent results.

    pre: 0 <= n <= 2
    pre: 0 <= ii < len(IDX)
    pre: small(v, w)
    post: _
    """
    i = pick(IDX, ii)
    ds = _dicts(_subst(OPS, i, v, w))
    given = _dicts(_subst(OPS, i, v, w))  # an equal, separate copy for comparison
    a = JSONPatch(ds, **OPTS)
    b = _builder(_dicts(_subst(OPS, i, v, w)))
    c = JSONPatch(a.asdicts(), **OPTS)
    if not why(_same_dicts(a.asdicts(), given), "dict form does not print the given dicts", a.asdicts(), given):
        return ok(False)
    if not why(_same_dicts(b.asdicts(), given), "builder form prints differently", b.asdicts(), given):
        return ok(False)
    if not why(_same_dicts(c.asdicts(), given), "reloaded asdicts() prints differently", c.asdicts(), given):
        return ok(False)
    ra = _apply(a, mkdoc(l0, l1, n))
    rb = _apply(b, mkdoc(l0, l1, n))
    rc = _apply(c, mkdoc(l0, l1, n))
    if not why(ra[0] == rb[0] == rc[0] and (ra[0] == "err" or (same_json(ra[1], rb[1]) and same_json(ra[1], rc[1]))),
               "the three forms have different effects", given, ra, rb, rc):
        return ok(False)
    # applying changed neither the patch nor the caller's operation list
    if not why(_same_dicts(a.asdicts(), given) and _same_dicts(ds, given), "patch or caller's list changed by apply", a.asdicts(), ds, given):
        return ok(False)
    # second application to an equal document: equal and independent result
    ra2 = _apply(a, mkdoc(l0, l1, n))
    if not why(ra2[0] == ra[0] and (ra[0] == "err" or same_json(ra2[1], ra[1])), "second application differs", given, ra, ra2):
        return ok(False)
    if ra[0] == "ok" and isinstance(ra[1], dict) and isinstance(ra2[1], dict):
        snapshot = copy.deepcopy(ra2[1])
        # mutate everything reachable in the first result
        for key in list(ra[1].keys()):
            val = ra[1][key]
            if isinstance(val, list):
                val.append("mut")
            elif isinstance(val, dict):
                val["mut"] = 1
                for sub in val.values():
                    if isinstance(sub, list):
                        sub.append("mut")
        if not why(same_json(ra2[1], snapshot) and _same_dicts(a.asdicts(), given), "results share structure with each other or the patch"):
            return ok(False)
    return ok(True)


def variants(l0: int, l1: int, n: int, ti: int, v: int) -> bool:
    """addne differs from add only in leaving an existing object member untouched; addap only in appending when the array
    index cannot be resolved.

    pre: 0 <= n <= 2
    pre: 0 <= ti < len(TARGETS)
    post: _
    """
    path = pick(TARGETS, ti)
    r_add = _apply(JSONPatch().add(path, v), mkdoc(l0, l1, n))
    r_ne = _apply(JSONPatch().addne(path, v), mkdoc(l0, l1, n))
    r_ap = _apply(JSONPatch().addap(path, v), mkdoc(l0, l1, n))
    # via the document form as well
    d_ne = _apply(JSONPatch([{"op": "addne", "path": path, "value": v}]), mkdoc(l0, l1, n))
    d_ap = _apply(JSONPatch([{"op": "addap", "path": path, "value": v}]), mkdoc(l0, l1, n))
    if not why(d_ne[0] == r_ne[0] and (d_ne[0] == "err" or same_json(d_ne[1], r_ne[1])), "addne: document form differs from builder", path):
        return ok(False)
    if not why(d_ap[0] == r_ap[0] and (d_ap[0] == "err" or same_json(d_ap[1], r_ap[1])), "addap: document form differs from builder", path, d_ap, r_ap):
        return ok(False)
    doc = mkdoc(l0, l1, n)
    tokens = O.parse(path)
    existing_member = False
    unresolvable_index = False
    if tokens:
        try:
            parent = O.resolve(tokens[:-1], doc)
            if isinstance(parent, dict) and tokens[-1] in parent:
                existing_member = True
            if isinstance(parent, list) and O.is_index(tokens[-1]) and int(tokens[-1]) > len(parent):
                unresolvable_index = True  # an index-shaped token past the end (a non-index token is an error for add and addap alike)
        except O.PtrError:
            pass
    if existing_member:
        exp_ne = ("ok", doc)
    else:
        exp_ne = r_add
    if not why(r_ne[0] == exp_ne[0] and (exp_ne[0] == "err" or same_json(r_ne[1], exp_ne[1])), "addne", path, r_ne, exp_ne):
        return ok(False)
    if unresolvable_index:
        ref = mkdoc(l0, l1, n)
        O.resolve(tokens[:-1], ref).append(v)
        exp_ap = ("ok", ref)
    else:
        exp_ap = r_add
    return ok(why(r_ap[0] == exp_ap[0] and (exp_ap[0] == "err" or same_json(r_ap[1], exp_ap[1])), "addap", path, r_ap, exp_ap))


TARGETS = ["/a/0", "/a/1", "/a/2", "/a/5", "/a/-", "/b/c", "/b/new", "/k", "/new", "", "/a/x", "/zz/x", "/b/1", "/0", "/b/7", "/b/01"]


def options(pi: int, which: int, v: int, l0: int) -> bool:
    """Patches constructed with non-default options: the document form and the builder form print the same dicts and have
    the same effect (the options apply to pointer text in both).

    pre: 0 <= pi < len(RAWPATHS)
    pre: 0 <= which <= 2
    post: _
    """
    path = pick(RAWPATHS, pi)
    if which == 0:
        ds = [{"op": "add", "path": path, "value": v}]
    elif which == 1:
        ds = [{"op": "add", "path": path, "value": v}, {"op": "copy", "from": path, "path": "/cp"}]
    else:
        ds = [{"op": "add", "path": path, "value": [v]}, {"op": "move", "from": path, "path": "/mv"}, {"op": "test", "path": "/mv", "value": [v]}]
    a = JSONPatch([dict(d) for d in ds], **OPTS)
    b = _builder(ds)
    if not why(_same_dicts(a.asdicts(), b.asdicts()), "document and builder forms print differently", OPTS, a.asdicts(), b.asdicts()):
        return ok(False)
    printed_has_escape = any(("\\" in d["path"]) or (OPTS.get("uri_decode") and "%" in d["path"]) for d in a.asdicts())
    if printed_has_escape and kf("C15-printed-path-decoded-again"):
        # known finding: the printed path still contains an escape character; loading it with the same options decodes it again
        c = a
    else:
        try:
            c = JSONPatch(a.asdicts(), **OPTS)
        except JSONPatchError as e:
            return ok(why(False, "the patch's own asdicts() output does not load", OPTS, a.asdicts(), str(e)))
    doc = {"a b": {"c": l0}, "xA": 1, "x\\u0041": 2, "a%20b": {"c": 0}}
    ra = _apply(a, copy.deepcopy(doc))
    rb = _apply(b, copy.deepcopy(doc))
    return ok(why(ra[0] == rb[0] and (ra[0] == "err" or same_json(ra[1], rb[1])), "document and builder forms have different effects", OPTS, path, ra, rb)
              and _same_dicts(c.asdicts(), a.asdicts()))
