"""C04 harness: JSON Pointer resolution conforms to RFC 6901 for every document and pointer."""
from __future__ import annotations

from typing import Any, Dict, List, Optional, Union

from jsonpath import JSONPointer
from jsonpath.exceptions import JSONPointerError, JSONPointerResolutionError
from jsonpath.pointer import resolve as ptr_resolve

from vlib import oracle_ptr as O
from vlib.hs import Leaf, P, kf, ok, pick, small, why
from vlib.stubs import Obj

MAXS = P.get("maxs", 2)
UE = P.get("unicode_escape", False)
SIGMA = ["a", "/", "~", "0", "1", "+", "-", "#", "_", " ", "é", "²", "\n", "\ud800", "١", "\U0001F600", "\x01", "2", "'", '"', "１", "\t"][: P.get("sigma", 22)]
SHAPE = P.get("shape", 0)
SENTINEL = ["default"]
TARGET = P.get("target")
FORM = P.get("form")


def _doc_with_obj(t: str, v: Any, shape: int) -> Any:
    """As _doc_with, objects being pure-Python Mappings so that a symbolic name is never hashed."""
    if shape == 4:
        return Obj([("#" + t, 0), (t, v), ("~" + t, 1)]), [t]
    if shape == 5:
        return Obj([(t, 0), ("#" + t, v), ("~" + t, 1)]), ["#" + t]
    if shape == 0:
        return Obj([("zz", 0), (t, v)]), [t]
    if shape == 1:
        return [0, Obj([(t, v)])], ["1", t]
    if shape == 2:
        return Obj([(t, [1, v])]), [t, "1"]
    return Obj([(t, Obj([(t, v), ("zz", 2)]))]), [t, t]


def _doc_with(tokens: List[str], v: Any, shape: int) -> Any:
    """A document in which the node reached by `tokens` (one or two member names) is v."""
    if shape == 4:  # look-alike siblings spelled with the extension prefixes
        return {"#" + tokens[0]: 0, tokens[0]: v, "~" + tokens[0]: 1}, [tokens[0]]
    if shape == 5:  # the target's own name starts with an extension prefix and the plain name exists too
        return {tokens[0]: 0, "#" + tokens[0]: v, "~" + tokens[0]: 1}, ["#" + tokens[0]]
    if shape == 6:
        return {tokens[0]: 0, "#" + tokens[0]: 1, "~" + tokens[0]: v}, ["~" + tokens[0]]
    if shape == 0:
        return {"zz": 0, tokens[0]: v}, [tokens[0]]
    if shape == 1:
        return [0, {tokens[0]: v}], ["1", tokens[0]]
    if shape == 2:
        return {tokens[0]: [1, v]}, [tokens[0], "1"]
    return {tokens[0]: {tokens[0]: v, "zz": 2}}, [tokens[0], tokens[0]]


def _is_node(got: Any, v: Any) -> bool:
    if isinstance(v, (list, dict)):
        return got is v
    return type(got) is type(v) and got == v


def reach_text(t: str, v: Leaf, shape: int) -> bool:
    """Every node is reachable: member name t symbolic, pointer spelled per RFC 6901, escape decoding off.

    pre: len(t) <= MAXS
    pre: 0 <= shape <= 5
    pre: small(v)
    pre: t != "zz"
    post: _
    """
    doc, tokens = _doc_with_obj(t, v, shape)  # "zz" is the name of the decoy member in these shapes
    text = O.spell(tokens)
    p = JSONPointer(text, unicode_escape=False)
    got = p.resolve(doc)
    return ok(why(_is_node(got, v), "resolved to another value", text, got) and why(p.exists(doc), "exists is false") and
              _is_node(ptr_resolve(text, doc, unicode_escape=False), v))


def _sig(i: int, j: int, k: int, n: int) -> str:
    s = ""
    if n >= 1:
        s += pick(SIGMA, i)
    if n >= 2:
        s += pick(SIGMA, j)
    if n >= 3:
        s += pick(SIGMA, k)
    return s


def reach_sigma(i: int, j: int, k: int, n: int, v: int, shape: int) -> bool:
    """Every node is reachable: member names over the alphabet Sigma, escape decoding per P (default on).

    pre: 0 <= i < len(SIGMA) and 0 <= j < len(SIGMA) and 0 <= k < len(SIGMA)
    pre: 0 <= n <= MAXS
    pre: 0 <= shape <= 6
    post: _
    """
    t = _sig(i, j, k, n)
    doc, tokens = _doc_with([t], v, shape)
    text = O.spell(tokens)
    p = JSONPointer(text, unicode_escape=UE)
    got = p.resolve(doc)
    if not (why(_is_node(got, v), "resolved to another value", text, got) and p.exists(doc)
            and _is_node(ptr_resolve(text, doc, unicode_escape=UE), v)):
        return ok(False)
    # resolution that also hands back the parent reaches the same node, below the node one token shorter
    parent, node = p.resolve_parent(doc)
    up = JSONPointer(O.spell(tokens[:-1]), unicode_escape=UE).resolve(doc)
    return ok(why(_is_node(node, v) and parent is up, "resolve_parent", text, node))


def _excluded(t: str) -> bool:
    """Documented extensions, outside the error clause: negative indices, leading blanks, '#'/'~'-prefixed tokens."""
    return t[:1] in ("-", "#", "~") and len(t) > 1 or t[:1].isspace() if t else False


def errors_text(t: str, n: int, leaf: Leaf, target: int) -> bool:
    """A token RFC 6901 cannot evaluate raises a pointer resolution error (or yields the default), never a value.

    pre: len(t) <= MAXS
    pre: 0 <= n <= 3
    pre: 0 <= target <= 2
    pre: small(leaf)
    pre: not _excluded(t)
    post: _
    """
    arr = []
    for j in range(3):
        if j < n:
            arr.append(10 + j)
    if target == 0:
        doc: Any = {"a": arr}
        exp_ok = O.is_index(t) and int(t) < n
        exp = arr[int(t)] if exp_ok else None
    elif target == 1:
        doc = {"a": leaf}
        exp_ok, exp = False, None
    else:
        doc = {"a": Obj([("k", 1), ("0", 2)])}
        exp_ok = t == "k" or t == "0"
        exp = (1 if t == "k" else 2) if exp_ok else None
    tokens = ["a", t]
    text = O.spell(tokens)
    p = JSONPointer(text, unicode_escape=False)
    try:
        got = p.resolve(doc)
        got_ok = True
    except JSONPointerResolutionError as e:
        str(e)
        got, got_ok = None, False
    if not why(got_ok == exp_ok, "resolution outcome", text, doc, "real", got_ok, got, "rfc", exp_ok):
        return ok(False)
    if exp_ok and not _is_node(got, exp):
        return ok(why(False, "value", got, exp))
    if not exp_ok:
        d = p.resolve(doc, default=SENTINEL)
        if not why(d is SENTINEL, "default not returned", d):
            return ok(False)
    return ok(p.exists(doc) == exp_ok)


def errors_sigma(i: int, j: int, k: int, nn: int, n: int, leafk: int, target: int) -> bool:
    """Same over Sigma tokens (escape decoding per P).

    pre: 0 <= i < len(SIGMA) and 0 <= j < len(SIGMA) and 0 <= k < len(SIGMA)
    pre: 0 <= nn <= MAXS
    pre: 0 <= n <= 3 and 0 <= leafk <= 4 and 0 <= target <= 2
    pre: TARGET is None or target == TARGET
    pre: (target == 1 or leafk == 0) and (target == 0 or n == 0)
    post: _
    """
    t = _sig(i, j, k, nn)
    if _excluded(t) or ("\\" in t):
        return ok(True)
    leaf = pick(["hello", 7, True, None, 1.5], leafk)
    arr = [10, 11, 12][:n] if n < 3 else [10, 11, 12]
    if target == 0:
        doc: Any = {"a": arr}
    elif target == 1:
        doc = {"a": leaf}
    else:
        doc = {"a": {"k": 1, "0": 2}}
    tokens = ["a", t]
    text = O.spell(tokens)
    try:
        exp = O.resolve(tokens, doc)
        exp_ok = True
    except O.PtrError:
        exp, exp_ok = None, False
    p = JSONPointer(text, unicode_escape=UE)
    try:
        got = p.resolve(doc)
        got_ok = True
    except JSONPointerResolutionError:
        got, got_ok = None, False
    if not why(got_ok == exp_ok, "resolution outcome", text, doc, "real", got_ok, got, "rfc", exp_ok):
        return ok(False)
    if exp_ok:
        return ok(_is_node(got, exp) and p.exists(doc))
    return ok(p.resolve(doc, default=SENTINEL) is SENTINEL and not p.exists(doc))


def index_render(i: int, n: int) -> bool:
    """Array indices as rendered decimal text: resolves iff 0 <= i < n, to that element.

    pre: 0 <= i <= 12
    pre: 0 <= n <= 4
    post: _
    """
    arr = []
    for j in range(4):
        if j < n:
            arr.append(100 + j)
    doc = {"a": arr}
    i = pick(list(range(13)), i)
    text = "/a/" + str(i)
    p = JSONPointer(text, unicode_escape=False)
    try:
        got = p.resolve(doc)
        return ok(0 <= i < n and got == 100 + i and p.exists(doc))
    except JSONPointerResolutionError:
        return ok(not (0 <= i < n) and not p.exists(doc))


BIG = ["9007199254740991", "9007199254740990", "4294967296", "2147483648", "18446744073709551616"[:16], "900719925474099"]


def limit_tokens(bi: int, n: int, v: int, ue: bool) -> bool:
    """Digit tokens up to and including the index limit (2**53 - 1): as a member name the token reaches that member; applied
    to an array (shorter than that) it is an index out of range - a resolution error, the default, exists() false.

    pre: 0 <= bi < len(BIG)
    pre: 0 <= n <= 2
    post: _
    """
    t = pick(BIG, bi)
    doc = {"o": {"zz": 0, t: v}, "a": [1, 2][:n] if n < 2 else [1, 2]}
    try:
        p = JSONPointer("/o/" + t, unicode_escape=ue)
        q = JSONPointer("/a/" + t, unicode_escape=ue)
    except JSONPointerError as e:
        return ok(why(False, "a token within the index limit is refused", t, type(e).__name__, str(e)))
    try:
        got = p.resolve(doc)
    except JSONPointerError as e:
        return ok(why(False, "member named by a digit token is not reached", t, str(e)))
    if not why(_is_node(got, v) and p.exists(doc), "member named by a digit token", t, got):
        return ok(False)
    try:
        q.resolve(doc)
        return ok(why(False, "index beyond the array resolved", t))
    except JSONPointerResolutionError:
        pass
    return ok(why(q.resolve(doc, default=SENTINEL) is SENTINEL and not q.exists(doc), "default / exists on an index out of range", t))


TEXTS = [("/a\\u0062", ["ab"]), ("/x%20y", ["x y"]), ("/a~1b/%7E0", ["~0", "~"]), ("/\\u00e9", ["é"]), ("/%2F", ["/"]), ("/a b", []), ("/ab", []),
         ("/\\ud83d\\ude00", ["\U0001F600"]), ("/%41/1", ["A"]), ("/a%5Cu0062", ["a\\u0062", "ab"])]


def options_history(ti: int, ue1: bool, uri1: bool, v: int, second_uri: bool) -> bool:
    """One pointer text, parsed first under any decoding options and then with escape decoding off: the second pointer is
    the RFC 6901 reading of the text (URI-decoded first if asked), whatever was done with the same text before.

    pre: 0 <= ti < len(TEXTS)
    post: _
    """
    text, decoys = pick(TEXTS, ti)
    try:
        JSONPointer(text, unicode_escape=ue1, uri_decode=uri1)
    except JSONPointerError:
        pass
    from urllib.parse import unquote

    tokens = O.parse(unquote(text) if second_uri else text)
    doc: Any = v
    for t in reversed(tokens):
        level = {"zz": 0}
        for d in decoys:
            level[d] = -1
        level[t] = doc
        doc = level
    p = JSONPointer(text, unicode_escape=False, uri_decode=second_uri)
    try:
        got = p.resolve(doc)
    except JSONPointerError as e:
        return ok(why(False, "decoding-off pointer does not resolve after an earlier parse of the same text", text, ue1, uri1, str(e)))
    return ok(why(_is_node(got, v), "resolved to another value", text, ue1, uri1, second_uri, got))


LEADS = ["", " ", "\n", "\t\r\n "]
FTEXTS = ['{"a": [1, {"b": 2}], "": {"~": 3, "/": [4]}}', '[{"a": 1}, [2, 3], "s"]', '"just text"']
FPTRS = ["", "/a/1/b", "//~1/0", "/0/a", "/2", "/zz"]


def forms(di: int, pi: int, li: int, form: int, indent: bool) -> bool:
    """The document as JSON text (blank-space-led or not, compact or indented), text file or binary file: resolve and exists
    agree with resolution against the parsed document.

    pre: 0 <= di < len(FTEXTS) and 0 <= pi < len(FPTRS) and 0 <= li < len(LEADS)
    pre: 0 <= form <= 2 and (FORM is None or form == FORM)
    post: _
    """
    import io
    import json

    parsed = json.loads(pick(FTEXTS, di))
    text = pick(LEADS, li) + json.dumps(parsed, indent=2 if indent else None) + ("\n" if indent else "")
    p = JSONPointer(pick(FPTRS, pi), unicode_escape=False)

    def mk() -> Any:
        if form == 0:
            return text
        if form == 1:
            return io.StringIO(text)
        return io.BytesIO(text.encode("utf-8"))

    try:
        exp = ("ok", p.resolve(parsed))
    except JSONPointerResolutionError as e:
        exp = ("err", type(e).__name__)
    try:
        got = ("ok", p.resolve(mk()))
    except JSONPointerResolutionError as e:
        got = ("err", type(e).__name__)
    if isinstance(parsed, str) and form == 0:
        return ok(True)  # a bare JSON string given as text: documented as ambiguous (taken as the string itself when it does not parse)
    return ok(why(got == exp, "resolution against a document form differs from the parsed document", form, text, str(p), got, exp)
              and why(p.exists(mk()) == (exp[0] == "ok"), "exists on a document form", form, text, str(p)))
