"""C09 harness: evaluation is pure - read-only, repeatable, unaffected by caching or interleaving."""
from __future__ import annotations

import copy
from typing import Any, Dict, List, Optional, Union

import jsonpath
from jsonpath import JSONPathEnvironment

from vlib.hs import P, alist, drive, kf, ok, why

QTEXT = P.get("qtext", "$.xs[?@.a == $.k]")
ENV_ON = JSONPathEnvironment(filter_caching=True)
ENV_OFF = JSONPathEnvironment(filter_caching=False)
C_ON = ENV_ON.compile(QTEXT)
C_OFF = ENV_OFF.compile(QTEXT)
RECOMPILED = ENV_ON.compile(QTEXT)
# re-compiling the same text gives an equal query (concrete: evaluated once at import, outside the traced region)
SAME_QUERY = RECOMPILED == C_ON and str(RECOMPILED) == str(C_ON) and hash(RECOMPILED) == hash(C_ON)
SCHED = P.get("sched", 4)
MAXN = P.get("maxn", 2)
TAKE = P.get("take")
SFIX = P.get("sfix")
ROUTE = P.get("route")
OI = Optional[int]
KT = {"oi": Optional[int], "nbi": Union[None, bool, int]}[P.get("kleaf", "oi")]


def mkdoc(k: OI, a0: OI, a1: OI, b1: OI, n: int) -> Dict[str, Any]:
    xs: List[Any] = []
    if n >= 1:
        xs.append({"a": a0})
    if n >= 2:
        xs.append({"a": a1, "b": b1})
    if n >= 3:
        xs.append({"b": a0})
    return {"k": k, "xs": xs, "a": a1}


def sig(ms: Any) -> List[Any]:
    return [(m.path, m.obj) for m in ms]


def cache_eq(k: KT, a0: OI, a1: OI, b1: int, n: int, ck: OI) -> bool:
    """Caching on == caching off, and a reused compiled query == a fresh one.

    pre: 0 <= n <= MAXN
    post: _
    """
    doc = mkdoc(k, a0, a1, b1, n)
    ctx = {"k": ck, "xs": [ck]}
    before, ctx_before = mkdoc(k, a0, a1, b1, n), {"k": ck, "xs": [ck]}
    on = sig(C_ON.finditer(doc, filter_context=ctx))
    off = sig(C_OFF.finditer(doc, filter_context=ctx))
    again = sig(C_ON.finditer(doc, filter_context=ctx))
    return ok(
        why(on == off, "cache on/off differ", on, off) and why(again == on, "second use differs")
        and why(doc == before and ctx == ctx_before, "document or context modified")
    )


def history(k1: OI, a1: OI, n1: int, k2: int, a2: int, n2: int) -> bool:
    """One compiled query applied to d1, d2, d1: each result equals that of a fresh compile.

    pre: 0 <= n1 <= MAXN and 0 <= n2 <= MAXN
    post: _
    """
    d1 = mkdoc(k1, a1, k1, 0, n1)
    d2 = mkdoc(k2, a2, 1, a2, n2)
    c1, c2 = {"k": k1, "xs": [k2]}, {"k": k2, "xs": [k1]}
    r1 = sig(C_ON.finditer(d1, filter_context=c1))
    r2 = sig(C_ON.finditer(d2, filter_context=c2))
    r3 = sig(C_ON.finditer(d1, filter_context=c1))
    e1 = sig(C_OFF.finditer(d1, filter_context=c1))
    e2 = sig(C_OFF.finditer(d2, filter_context=c2))
    same_query = SAME_QUERY
    return ok(why(r1 == e1, "first", r1, e1) and why(r2 == e2, "second", r2, e2) and why(r3 == e1, "third", r3, e1) and why(same_query, "recompile not equal"))


def _next(it: Any) -> Any:
    try:
        return next(it)
    except StopIteration:
        return None


def interleave(k1: OI, a1: int, n1: int, k2: int, a2: OI, n2: int, s0: bool, s1: bool, s2: bool, s3: bool, s4: bool, s5: bool) -> bool:
    """Two lazy iterators from one compiled query over different documents, advanced under a symbolic schedule.

    pre: 0 <= n1 <= MAXN and 0 <= n2 <= MAXN
    pre: SFIX is None or (s0 == SFIX[0] and s1 == SFIX[1])
    post: _
    """
    # the first document always has two candidates: a value cached while the other iterator ran is used for the second
    d1 = mkdoc(k1, a1, 1, a1, 2 + n1 - n1)
    d2 = mkdoc(k2, a2, k2, 0, 1 + n2)
    c1, c2 = {"k": k1, "xs": []}, {"k": k2, "xs": [1]}
    e1 = sig(C_OFF.finditer(d1, filter_context=c1))
    e2 = sig(C_OFF.finditer(d2, filter_context=c2))
    it1 = iter(C_ON.finditer(d1, filter_context=c1))
    it2 = iter(C_ON.finditer(d2, filter_context=c2))
    g1: List[Any] = []
    g2: List[Any] = []
    done1 = done2 = False
    for s in [s0, s1, s2, s3, s4, s5][:SCHED]:
        if s and not done1:
            m = _next(it1)
            if m is None:
                done1 = True
            else:
                g1.append(m)
        elif not done2:
            m = _next(it2)
            if m is None:
                done2 = True
            else:
                g2.append(m)
    g1.extend(it1)
    g2.extend(it2)
    return ok(why(sig(g1) == e1, "first iterator", sig(g1), e1) and why(sig(g2) == e2, "second iterator", sig(g2), e2))


def partial(k1: OI, a1: int, n1: int, k2: int, a2: OI, n2: int, take: int, viamatch: bool) -> bool:
    """An evaluation left unfinished (match(), or an iterator advanced `take` times and abandoned) leaves nothing behind:
    the next evaluation of the same compiled query, on another document, equals that of a fresh compile.

    pre: 0 <= n1 <= MAXN and 0 <= n2 <= MAXN
    pre: 0 <= take <= 4 and (TAKE is None or (viamatch if TAKE < 0 else (take == TAKE and not viamatch)))
    post: _
    """
    d1 = mkdoc(k1, a1, 1, a1, 2 + n1)
    d2 = mkdoc(k2, a2, k2, 0, 1 + n2)
    c1, c2 = {"k": k1, "xs": []}, {"k": k2, "xs": [1]}
    e1 = sig(C_OFF.finditer(d1, filter_context=c1))
    e2 = sig(C_OFF.finditer(d2, filter_context=c2))
    if viamatch:
        m = C_ON.match(d1, filter_context=c1)
        if not why((m is None) == (not e1) and (m is None or (m.path, m.obj) == e1[0]), "match() is not the first match"):
            return ok(False)
    else:
        it1 = iter(C_ON.finditer(d1, filter_context=c1))
        got = []
        for i in range(4):
            if i < take:
                m = _next(it1)
                if m is not None:
                    got.append(m)
        if not why(sig(got) == e1[: len(got)], "prefix", sig(got), e1):
            return ok(False)
    r2 = sig(C_ON.finditer(d2, filter_context=c2))
    r1 = sig(C_ON.finditer(d1, filter_context=c1))
    return ok(why(r2 == e2, "evaluation after an unfinished one", r2, e2) and why(r1 == e1, "re-evaluation after an unfinished one", r1, e1))


def text_reuse(ki: int, ai: int, n: int, again_other: bool) -> bool:
    """The document given as JSON text: what the caller does to the results of one evaluation is not seen by the next
    evaluation of the same text (the result is a function of query, document and context alone).

    pre: 0 <= ki <= 2 and 0 <= ai <= 2
    pre: 0 <= n <= 2
    post: _
    """
    import json

    pool = [0, 1, None]
    k, a = pool[0], pool[0]
    for idx in range(3):
        if ki == idx:
            k = pool[idx]
        if ai == idx:
            a = pool[idx]
    text = json.dumps(mkdoc(k, a, 1, a, n))
    ctx = {"k": k, "xs": [1]}
    exp = sig(C_OFF.finditer(json.loads(text), filter_context=ctx))
    first = list(C_ON.finditer(text, filter_context=ctx))
    if not why(sig(first) == exp, "evaluation of the text", sig(first), exp):
        return ok(False)
    for m in first:  # the caller edits what came back
        if isinstance(m.obj, dict):
            m.obj["a"] = "edited"
            m.obj["k"] = "edited"
        elif isinstance(m.obj, list):
            m.obj.append({"a": k})
    second = sig((C_OFF if again_other else C_ON).finditer(text, filter_context=ctx))
    return ok(why(second == exp, "second evaluation of the same text sees the caller's edits", second, exp))


def _run(c: Any, doc: Any, ctx: Any, use_async: bool) -> List[Any]:
    if use_async:
        return sig(drive(alist(drive(c.finditer_async(doc, filter_context=ctx)))))
    return sig(c.finditer(doc, filter_context=ctx))


def same_doc(k1: OI, a0: OI, n: int, ck1: OI, ck2: OI, edit: bool, use_async: bool) -> bool:
    """One compiled query and ONE document object: evaluated under a filter context, then under another, then once more
    after the caller edited the document in place. Each result equals what the uncached environment returns at that moment
    (the result is a function of query, document and context - not of which object was seen last).

    pre: 0 <= n <= MAXN
    pre: ROUTE is None or use_async == (ROUTE == "async")
    post: _
    """
    doc = mkdoc(k1, a0, 1, a0, n + 1)
    c1, c2 = {"k": ck1, "xs": [ck1]}, {"k": ck2, "xs": [ck2, 1]}
    r1, e1 = _run(C_ON, doc, c1, use_async), _run(C_OFF, doc, c1, use_async)
    r2, e2 = _run(C_ON, doc, c2, use_async), _run(C_OFF, doc, c2, use_async)
    if not why(r1 == e1, "first context", r1, e1) or not why(r2 == e2, "same document, second filter context", r2, e2):
        return ok(False)
    if edit:
        doc["k"] = ck1
        doc["xs"][0]["a"] = ck2
    r3, e3 = _run(C_ON, doc, c2, use_async), _run(C_OFF, doc, c2, use_async)
    return ok(why(r3 == e3, "same document object after an in-place edit", r3, e3))
