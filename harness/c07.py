"""C07 harness: compile-time gate (integer ranges, typing rules over a finite program space)."""
from __future__ import annotations

from typing import Any, List, Optional

import jsonpath
from jsonpath import JSONPathEnvironment
from jsonpath.exceptions import JSONPathIndexError
from jsonpath.selectors import IndexSelector, SliceSelector
from jsonpath.token import Token

from vlib.hs import P, kf, ok, pick, why

TOK = Token("INT", "0", 2, "$[0]")
BOUND = P.get("bound", 10**18)
ENV = JSONPathEnvironment()


class LimEnv(JSONPathEnvironment):
    pass


LENV = LimEnv()


def index_gate(i: int, lo: int, hi: int) -> bool:
    """IndexSelector is constructed iff lo <= index <= hi (the environment's limits), else JSONPathIndexError.

    pre: lo <= 0 <= hi
    pre: -BOUND <= i <= BOUND and -BOUND <= lo and hi <= BOUND
    post: _
    """
    LENV.min_int_index = lo
    LENV.max_int_index = hi
    try:
        sel = IndexSelector(env=LENV, token=TOK, index=i)
        built = True
    except JSONPathIndexError:
        built = False
    return ok(built == (lo <= i <= hi) and (not built or sel.index == i))


def slice_gate(a: Optional[int], b: Optional[int], c: Optional[int], lo: int, hi: int) -> bool:
    """SliceSelector is constructed iff every given bound is inside the limits; no bound on any integer.

    pre: lo <= 0 <= hi
    post: _
    """
    LENV.min_int_index = lo
    LENV.max_int_index = hi
    try:
        SliceSelector(env=LENV, token=TOK, start=a, stop=b, step=c)
        built = True
    except JSONPathIndexError:
        built = False
    exp = all(x is None or lo <= x <= hi for x in (a, b, c))
    return ok(built == exp)


# ------------------------------------------------------------------ typing rules over a finite program space
# atoms: (text, valid as a test expression under RFC 9535 2.4.3 / grammar)
ATOMS = [
    ("@.a", True), ("@.*", True), ("$.a[0]", True), ("@.a == 1", True), ("@.* == 1", False), ("1 == $..a", False),
    ("length(@.a)", False), ("length(@.a) == 1", True), ("match(@.a, 'a')", True), ("match(@.a, 'a') == true", False),
    ("1", False), ("'a'", False), ("true", False), ("null", False), ("count(@.*) > 1", True), ("count(@.*)", False), ("value(@.*) == 1", True),
    ("value(@.*)", False), ("nosuch(@.a)", False), ("length(@.a, @.b) == 1", False), ("length(@.*) == 1", False),
    ("count(1) == 1", False), ("length(value(@.*)) == 1", True), ("search(@.a, length(@.b))", True), ("match(@.*, 'a')", False),
    ("count(@.a) == length('ab')", True), ("length(match(@.a, 'a')) == 1", False), ("search(@.a)", False), ("length() == 1", False),
    ("@.* != 1", False), ("@.* < 1", False), ("1 <= @.*", False), ("@.* >= 1", False), ("match(@.a, 'a') != true", False), ("@.a != 1", True), ("@.a <= @.b", True),
    ("@['a','b'] == 1", False), ("1 == $[0,1]", False), ("@['a'][0] == 1", True), ("@['a','b']", True),
    ("@.a == length(@.b)", True), ("@.a == match(@.b, 'a')", False), ("value(@.a == 1) == 1", False), ("count(@.a == 1) == 1", False),
]
TEMPLATES = [
    "{0}", "!{0}", "({0})", "!({0})", "{0} && {1}", "{0} || {1}", "{1} && {0}", "{1} || {0}", "!({0} && {1})", "!{0} || {1}",
    "{1} && ({0} || {2})", "({1} || {2}) && !{0}", "{1} || {2} && {0}", "!(!{0})", "{1} && !({2} || {0})",
]
GOOD = [i for i, a in enumerate(ATOMS) if a[1]][: P.get("fillers", 3)]
FLO, FHI = P.get("flo", 0), P.get("fhi", 6)
TPL_LO, TPL_HI = P.get("tpl_lo", 0), P.get("tpl_hi", len(TEMPLATES) - 1)
# argument kinds for function parameter positions
ARGS = [("1", "lit"), ("'a'", "lit"), ("@.a", "singular"), ("$.a[0]", "singular"), ("@.*", "nonsingular"), ("@..a", "nonsingular"),
        ("@['a','b']", "nonsingular"), ("$[0,1]", "nonsingular"), ("@.a['b',0]", "nonsingular"), ("@['a']", "singular"),
        ("length(@.a)", "valuefn"), ("count(@.*)", "valuefn"), ("match(@.a, 'a')", "logicalfn"), ("@.a == 1", "comparison"),
        ("@.a && @.b", "logical")]
VALUE_OK = {"lit", "singular", "valuefn"}
NODES_OK = {"singular", "nonsingular"}
FUNCS = [("length({0}) == 1", [VALUE_OK]), ("count({0}) == 1", [NODES_OK]), ("value({0}) == 1", [NODES_OK]),
         ("match({0}, {1})", [VALUE_OK, VALUE_OK]), ("search({0}, {1})", [VALUE_OK, VALUE_OK]), ("!match({1}, {0})", [VALUE_OK, VALUE_OK]),
         ("@.b && length({0}) > count({1})", [VALUE_OK, NODES_OK])]


def _accepts(text: str) -> Optional[bool]:
    try:
        ENV.compile(text)
        return True
    except jsonpath.JSONPathError:
        return False


def typing_positions(t: int, i: int, j: int, k: int) -> bool:
    """Every atom kind at every test position of every template (j, k range over well-typed fillers).

    pre: TPL_LO <= t <= TPL_HI and 0 <= i < len(ATOMS) and 0 <= j < len(GOOD) and 0 <= k < len(GOOD)
    post: _
    """
    tpl = pick(TEMPLATES, t)
    a = pick(ATOMS, i)
    if any(op in a[0] for op in (" == ", " != ", " < ", " <= ", " > ", " >= ")) and "!{0}" in tpl:
        tpl = tpl.replace("!{0}", "!({0})")  # `!x == y` would parse as `(!x) == y`: negate the comparison as a whole
    b = ATOMS[pick(GOOD, j)]
    c = ATOMS[pick(GOOD, k)]
    text = "$[?" + tpl.format(a[0], b[0], c[0]) + "]"
    got = _accepts(text)
    return ok(why(got == a[1], "accepted" if got else "rejected", text, "well-typed" if a[1] else "ill-typed"))


def typing_args(f: int, x: int, y: int) -> bool:
    """Every argument kind at every parameter position of the five standard functions.

    pre: 0 <= f < len(FUNCS) and 0 <= x < len(ARGS) and 0 <= y < len(ARGS)
    post: _
    """
    tpl, kinds = pick(FUNCS, f)
    ax, ay = pick(ARGS, x), pick(ARGS, y)
    text = "$[?" + tpl.format(ax[0], ay[0]) + "]"
    exp = ax[1] in kinds[0] and (len(kinds) < 2 or ay[1] in kinds[1])
    got = _accepts(text)
    return ok(why(got == exp, "accepted" if got else "rejected", text, "well-typed" if exp else "ill-typed"))


def rejects(text: str) -> bool:
    """Native replay target: *text* must be refused with a JSONPath error."""
    try:
        JSONPathEnvironment().compile(text)
    except jsonpath.JSONPathError:
        return True
    return False


def accepts(text: str) -> bool:
    """Native replay target: *text* must compile."""
    JSONPathEnvironment().compile(text)
    return True


def compiles_to(text: str, want: tuple) -> bool:
    """Native replay target: *text* compiles to exactly the structure *want* (oracle.shape)."""
    from vlib import oracle

    def tup(x):  # JSON round trips turn tuples into lists
        return tuple(tup(i) for i in x) if isinstance(x, (list, tuple)) else x

    return oracle.shape(JSONPathEnvironment().compile(text)) == tup(want)


FIRSTS = ["@.a", "length(@.a)", "1"]
ARGS_H = [("1", "lit"), ("@.a", "singular"), ("@.*", "nonsingular"), ("count(@.*)", "valuefn"), ("match(@.a, 'a')", "logicalfn"), ("@['a','b']", "nonsingular")]


def typing_history(f: int, x0: int, x: int, y: int) -> bool:
    """Two compilations on ONE fresh environment: what the first call was given does not change the verdict on the second.

    pre: FLO <= f <= FHI and 0 <= x0 < len(FIRSTS) and 0 <= x < len(ARGS_H) and 0 <= y < len(ARGS_H)
    pre: len(FUNCS[FLO][1]) > 1 or y == 0
    post: _
    """
    env = JSONPathEnvironment()
    tpl, kinds = pick(FUNCS, f)
    first = "$[?" + tpl.format(pick(FIRSTS, x0), "'a'") + "]"
    try:
        env.compile(first)
    except jsonpath.JSONPathError:
        pass
    ax, ay = pick(ARGS_H, x), pick(ARGS_H, y)
    text = "$[?" + tpl.format(ax[0], ay[0]) + "]"
    exp = ax[1] in kinds[0] and (len(kinds) < 2 or ay[1] in kinds[1])
    try:
        env.compile(text)
        got = True
    except jsonpath.JSONPathError:
        got = False
    return ok(why(got == exp, "after compiling", first, "accepted" if got else "rejected", text, "well-typed" if exp else "ill-typed"))
