"""C13 harness: documented non-standard syntax means what the documentation says."""
from __future__ import annotations

import re
from typing import Any, Dict, List, Union

import jsonpath
from jsonpath import JSONPathEnvironment

from vlib import spines
from vlib.hs import Leaf, P, kf, ok, pick, same_json, small, why

ENV = JSONPathEnvironment()
EXT = P.get("ext", "a")
STD = P.get("std")
REF = P.get("ref")
SPINE = P.get("spine", "obj2")
MAXN = P.get("maxn", 2)
for _prior in P.get("prior", []):  # queries this environment compiled earlier (history between compilations)
    ENV.compile(_prior)
C_EXT = ENV.compile(EXT)
C_STD = ENV.compile(STD) if STD else None
_LT = {"leaf": Leaf, "int": int, "intstr": Union[int, str], "nbi": Union[None, bool, int]}
LT = _LT[P.get("leaf", "leaf")]
CK = _LT[P.get("ckleaf", "int")]
STRS = P.get("strs")
WRAP = P.get("wrap", False)  # the standard query is evaluated on [doc] (fake root)


def sig(ms: Any) -> List[Any]:
    return [(m.parts, m.obj) for m in ms]


def _same(a: List[Any], b: List[Any], values_only: bool = False) -> bool:
    if len(a) != len(b):
        return False
    for (pa, va), (pb, vb) in zip(a, b):
        if not values_only and pa != pb:
            return False
        if isinstance(vb, (list, dict)):
            if va is not vb:
                return False
        elif not (type(va) is type(vb) and va == vb):
            return False
    return True


def _ref(doc: Any, ctx: Dict[str, Any]) -> List[Any]:
    """Reference meanings written from the documentation. Returns [(parts, value)]."""
    if REF == "keys-root":
        return [((f"~{k}",), k) for k in doc] if isinstance(doc, dict) else []
    if REF == "keys-a":
        v = doc.get("a") if isinstance(doc, dict) else None
        return [(("a", f"~{k}"), k) for k in v] if isinstance(v, dict) else []
    if REF == "keys-desc":
        out: List[Any] = []

        def walk(parts: tuple, v: Any) -> None:
            if isinstance(v, dict):
                for k in v:
                    out.append((parts + (f"~{k}",), k))
                for k, x in v.items():
                    walk(parts + (k,), x)
            elif isinstance(v, list):
                for i, x in enumerate(v):
                    walk(parts + (i,), x)

        # document order of the descendant segment: the node itself, then its descendants
        def pre(parts: tuple, v: Any) -> None:
            if isinstance(v, dict):
                for k in v:
                    out.append((parts + (f"~{k}",), k))
            for ch_parts, ch in (([(parts + (k,), x) for k, x in v.items()] if isinstance(v, dict) else
                                 [(parts + (i,), x) for i, x in enumerate(v)] if isinstance(v, list) else [])):
                if isinstance(ch, (dict, list)):
                    pre(ch_parts, ch)

        pre((), doc)
        return out
    if REF == "key-eq-a":
        return [(("a",), doc["a"])] if isinstance(doc, dict) and "a" in doc else []
    if REF == "key-gt-0":
        return [((i,), x) for i, x in enumerate(doc) if i > 0] if isinstance(doc, list) else []
    if REF == "key-in-list":
        if isinstance(doc, dict):
            return [((k,), x) for k, x in doc.items() if k in ("a", "zz")]
        return [((i,), x) for i, x in enumerate(doc) if i in (0, 2)] if isinstance(doc, list) else []
    if REF == "ctx-eq":
        k = ctx["k"]
        return [((i,), x) for i, x in enumerate(doc) if isinstance(x, dict) and "a" in x and _jeq(x["a"], k)]
    if isinstance(REF, list):
        # a union of operands, each given as [standard query, wrap?]: the fake root is decided per operand
        outl: List[Any] = []
        for std, wrapped in REF:
            outl.extend(sig(ENV.compile(std).finditer([doc] if wrapped else doc, filter_context=ctx)))
        return outl
    raise KeyError(REF)


def _jeq(a: Any, b: Any) -> bool:
    if isinstance(a, bool) or isinstance(b, bool):
        return isinstance(a, bool) and isinstance(b, bool) and a == b
    if a is None or b is None:
        return a is None and b is None
    return type(a) is type(b) and a == b or (isinstance(a, (int, float)) and isinstance(b, (int, float)) and a == b)


def equiv(l0: LT, l1: LT, l2: int, l3: int, n: int, b0: bool, b1: bool, b2: bool, ck: CK) -> bool:
    """The extension spelling evaluates as its standard spelling / documented meaning on every document and context.

    pre: 0 <= n <= MAXN
    pre: small(l0, l1, ck)
    pre: STRS is None or (0 <= l0 < len(STRS) and 0 <= l1 < len(STRS))
    post: _
    """
    if STRS is not None:
        l0, l1 = pick(STRS, l0), pick(STRS, l1)
    doc = spines.build(SPINE, [l0, l1, l2, l3, l0, l1], n, [b0, b1, b2])
    ctx = {"k": ck, "a": [ck, 1], "s": "abc", "o": {"a": 1}, "e": [[], {}, ""]}
    got = sig(C_EXT.finditer(doc, filter_context=ctx))
    if C_STD is not None:
        target = [doc] if WRAP else doc
        exp = sig(C_STD.finditer(target, filter_context=ctx))
        return ok(why(_same(got, exp, values_only=WRAP), "extension differs from standard spelling", EXT, STD, got, exp))
    exp = _ref(doc, ctx)
    return ok(why(_same(got, exp, values_only=isinstance(REF, list)), "extension differs from documented meaning", EXT, REF, got, exp))


def _norm(x: Any) -> Any:
    """<> is kept as its own operator in the compiled expression: read it as != when comparing structures."""
    if isinstance(x, tuple):
        return tuple(_norm(i) for i in x)
    return "!=" if x == "<>" else x


def same_acceptance(ext: str, std: str) -> bool:
    """Native replay target: the extension spelling is accepted exactly when its standard spelling is, and then
    compiles to the same structure (aliases are pure re-spellings)."""
    from vlib import oracle

    def comp(q: str) -> Any:
        try:
            return ("ok", _norm(oracle.shape(JSONPathEnvironment().compile(q))))
        except jsonpath.JSONPathError as e:
            return ("rejected", None)

    a, b = comp(ext), comp(std)
    return why(a == b, "alias and standard spelling differ at compile time", ext, a, std, b)
