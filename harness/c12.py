"""C12 harness: query iterator operations behave as list slicing on the match sequence."""
from __future__ import annotations

from typing import Any, List, Optional, Tuple

import jsonpath
from jsonpath import JSONPathEnvironment

from vlib.hs import P, kf, ok, why

ENV = JSONPathEnvironment()
OPS: List[str] = P.get("ops", ["skip", "tail"])
MAXLEN = P.get("maxlen", 4)
POOL = list(range(-1, MAXLEN + 3))
VIEW = P.get("view", "values")
QUERY = P.get("query", "$[*]")


def concretise(n: int) -> int:
    """The C iterators (islice, deque, tee) refuse integer proxies: pick the equal concrete value (forks once per pool value)."""
    for c in POOL:
        if c == n:
            return c
    return POOL[0]


def _ref(L: List[Any], op: str, n: int) -> Tuple[Optional[List[Any]], List[Any], Any]:
    """Reference list semantics. Returns (error?, remaining list, extra) ; error -> remaining unchanged."""
    counted = op in ("limit", "head", "first", "skip", "drop", "tail", "last", "take", "tee")
    if counted and n < 0:
        return ("ValueError", L, None)
    if op in ("limit", "head", "first"):
        return (None, L[:n], None)
    if op in ("skip", "drop"):
        return (None, L[n:], None)
    if op in ("tail", "last"):
        return (None, L[len(L) - n:] if n < len(L) else L, None) if n > 0 else (None, [], None)
    if op == "take":
        return (None, L[n:], L[:n])
    if op == "tee":
        return (None, L, [L for _ in range(n)])
    if op in ("first_one", "one"):
        return (None, L[1:], L[0] if L else None)
    if op == "last_one":
        return (None, [], L[-1] if L else None)
    raise KeyError(op)


def _view(q: Any) -> List[Any]:
    if VIEW == "values":
        return list(q.values())
    if VIEW == "locations":
        return list(q.locations())
    if VIEW == "items":
        return list(q.items())
    if VIEW == "pointers":
        return [str(p) for p in q.pointers()]
    return [(m.path, m.obj) for m in q]


def _view_ref(L: List[Tuple[int, Any]]) -> List[Any]:
    if VIEW == "values":
        return [v for _, v in L]
    if VIEW == "locations":
        return [f"$[{i}]" for i, _ in L]
    if VIEW == "items":
        return [(f"$[{i}]", v) for i, v in L]
    if VIEW == "pointers":
        return [f"/{i}" for i, _ in L]
    return [(f"$[{i}]", v) for i, v in L]


def chain(arr: List[int], a: int, b: int, c: int) -> bool:
    """A chain of query-iterator operations produces what the same list operations produce on the full match list.

    pre: len(arr) <= MAXLEN
    pre: -1 <= a <= MAXLEN + 2 and -1 <= b <= MAXLEN + 2 and -1 <= c <= MAXLEN + 2
    pre: (len(OPS) > 1 or b == 0) and (len(OPS) > 2 or c == 0)
    post: _
    """
    counts = [concretise(x) for x in [a, b, c][: len(OPS)]]
    q = ENV.query(QUERY, arr)
    L: List[Tuple[int, Any]] = [(i, arr[i]) for i in range(len(arr))]
    if QUERY == "$[0, 0, *]" and arr:  # a match sequence in which one node occurs more than once
        L = [(0, arr[0]), (0, arr[0])] + L
    pending: List[Any] = []  # (taken query, expected) pairs, read only after the original has been driven on
    for op, n in zip(OPS, counts):
        err, newL, extra = _ref(L, op, n)
        try:
            if op in ("first_one", "one", "last_one"):
                m = getattr(q, op)()
                got_extra: Any = None if m is None else (int(m.parts[0]), m.obj)
                if not why(got_extra == extra, op, "returned", got_extra, "expected", extra):
                    return ok(False)
            elif op == "take":
                t = q.take(n)
                if not why(err is None, "take", n, "should have raised"):
                    return ok(False)
                pending.append((t, extra))
            elif op == "tee":
                qs = q.tee(n)
                if not why(err is None and len(qs) == n, "tee count"):
                    return ok(False)
                outs = [[(int(m.parts[0]), m.obj) for m in x] for x in qs]
                for o in outs:
                    if not why(o == L, "tee copy", o, L):
                        return ok(False)
                return ok(True)  # the original is not to be used after tee
            else:
                r = getattr(q, op)(n)
                if not why(r is q, op, "does not return the query itself"):
                    return ok(False)
            if not why(err is None, op, n, "expected", err, "but no error"):
                return ok(False)
        except ValueError:
            if not why(err == "ValueError", op, n, "unexpected ValueError"):
                return ok(False)
        L = newL
    if not why(_view(q) == _view_ref(L), "final", OPS, counts, L):
        return ok(False)
    # what take() split off is independent of what happened to the original afterwards
    for t, extra in pending:
        taken = [(int(m.parts[0]), m.obj) for m in t]
        if not why(taken == extra, "taken matches", taken, extra):
            return ok(False)
    return ok(True)
