"""C18 harness: the command-line tool is a faithful front end to the library.

The real argument parser and the real sub-command handlers are executed; what is stubbed is the operating system:
argparse.FileType.__call__ (opens files) is replaced by an in-memory file table, sys.stdin/stdout/stderr by StringIO.
"""
from __future__ import annotations

import argparse
import io
import json
import sys
from typing import Any, Dict, List, Optional

import jsonpath
from jsonpath import cli
from jsonpath.exceptions import JSONPatchError, JSONPathError, JSONPointerError

from vlib.hs import P, kf, ok, pick, why

CMD = P.get("cmd", "path")
LO, HI = P.get("lo", 0), P.get("hi", 99)
MODE = P.get("mode", "semantics")  # semantics: plumbing options fixed; plumbing: every option, a small expression/document pool
PLUMB_E = P.get("plumb_e", [0, 7])
PLUMB_D = [0, 2]
NDOCS = P.get("ndocs", 7)
DOCS = ['{"a": [1, {"a": 1, "b": "x\\u00e9"}], "b c": {"a b": 2}, "k": null}', '[1, 2, {"a": [3, 1e999, NaN], "b": -Infinity}]', '{"a": ', b'{"a": "\xff"}', b'\xef\xbb\xbf{"a": [1, {"a": 1}], "k": null}', '"just a string"', ""]
QUERIES = ["$.a", "$..a", "$[?@.a]", "$.a[?@.a == 1]", "$[?length(@.a) == 2]", "$['b c']", "", "$[", "$[?count(1) == 1]", "$[?nosuch(@.a)]",
           "$[9007199254740992]", "$[?@.a == 'x\\u00e9']", "$.a[1].b", "$[?@.a =~ /[/]", "$[?length(@.*) == 1]",
           "$[?@.a\nand @.b]", "$.a[?@.a == 1\n or @.b]", "$['b c',\n 'k']"]
POINTERS = ["", "/a", "/a/0", "/a/1/a", "/b c/a b", "/b%20c/a%20b", "/zz", "/a/9", "/a/-", "a", "/a/1/b", "/k", "/\\u0061"]
PATCHES = ['[{"op": "add", "path": "/n", "value": 1}]', '[{"op": "remove", "path": "/a/0"}, {"op": "test", "path": "/k", "value": null}]',
           '[{"op": "test", "path": "/k", "value": 1}]', '[{"op": "nope", "path": "/a"}]', '[{"op": "add", "path": "/zz/x", "value": 1}]',
           '{"op": "add", "path": "/n", "value": 1}', '[{"op": "add", "path": "/n"', '[]', '[{"op": "add", "path": "/b%20c/n", "value": 1}]',
           '[{"op": "replace", "path": "", "value": [1]}]', '[{"path": "/a"}]', '[{"op": "add", "path": "a", "value": 1}]',
           b'[{"op": "add", "path": "/n", "value": "\xff"}]']


class _Files:
    def __init__(self) -> None:
        self.read: Dict[str, str] = {}
        self.written: Dict[str, io.StringIO] = {}


def _run(argv: List[str], files: _Files, stdin: str = "") -> Dict[str, Any]:
    """Run the real parser and handler on argv with the OS stubbed. Returns exit status, stdout, stderr, escaped exception."""
    real_call = argparse.FileType.__call__
    real = (sys.stdin, sys.stdout, sys.stderr)

    def fake_call(self: argparse.FileType, name: str) -> Any:
        if name == "-":
            return sys.stdin if "r" in self._mode else sys.stdout
        if "r" in self._mode:
            if name not in files.read:
                raise argparse.ArgumentTypeError(f"can't open '{name}'")
            content = files.read[name]
            raw = content if isinstance(content, bytes) else content.encode("utf-8")
            return io.BytesIO(raw) if "b" in self._mode else io.StringIO(raw.decode("utf-8"))
        buf = io.StringIO()
        files.written[name] = buf
        return buf

    out, err = io.StringIO(), io.StringIO()
    res: Dict[str, Any] = {"status": 0, "exc": None}
    try:
        argparse.FileType.__call__ = fake_call  # type: ignore[method-assign]
        sys.stdin, sys.stdout, sys.stderr = io.StringIO(stdin), out, err
        try:
            parser = cli.setup_parser()
            args = parser.parse_args(argv)
            args.func(args)
        except SystemExit as e:
            res["status"] = e.code if isinstance(e.code, int) else (0 if e.code is None else 1)
        except Exception as e:  # noqa: BLE001 - an escaping exception is what a traceback is made of
            res["exc"] = f"{type(e).__name__}: {e}"
            res["status"] = 1
    finally:
        argparse.FileType.__call__ = real_call  # type: ignore[method-assign]
        sys.stdin, sys.stdout, sys.stderr = real
    res["stdout"], res["stderr"] = out.getvalue(), err.getvalue()
    return res


def _asfile(text: str) -> Any:
    """The library call the CLI corresponds to receives the document as a readable (binary) file."""
    return io.BytesIO(text if isinstance(text, bytes) else text.encode("utf-8"))


def _expected(call: Any) -> Any:
    try:
        return ("ok", call())
    except (JSONPathError, JSONPointerError, JSONPatchError, json.JSONDecodeError, UnicodeDecodeError) as e:
        return ("rejected", type(e).__name__)  # UnicodeDecodeError: an undecodable document


def _judge(res: Dict[str, Any], exp: Any, pretty: bool, debug: bool, outfile: bool, files: _Files) -> bool:
    if exp[0] == "ok":
        text = files.written["out.json"].getvalue() if outfile else res["stdout"]
        want = json.dumps(exp[1], indent=2 if pretty else None)
        return why(res["exc"] is None and res["status"] == 0 and text == want, "output", res, want)
    # rejected by the library
    if debug:
        return why(res["status"] == 1, "debug: status", res)  # a traceback is allowed when debugging is requested
    msg = res["stderr"]
    one_line = msg.strip() != "" and "\n" not in msg.strip("\n") and "Traceback" not in msg
    return why(res["exc"] is None and res["status"] == 1 and one_line and res["stdout"] == "", "error handling", exp, res)


def path_cmd(qi: int, di: int, pretty: bool, nue: bool, debug: bool, ntc: bool, viafile: bool, outfile: bool, stdin_doc: bool) -> bool:
    """`json path`: every option combination x query pool x document pool.

    pre: 0 <= qi < len(QUERIES) and 0 <= di < len(DOCS) and LO <= qi <= HI
    pre: (MODE == "semantics" and not pretty and not outfile and not stdin_doc and not debug and di < NDOCS) or (MODE == "plumbing" and qi in PLUMB_E and di in PLUMB_D and not nue and not ntc)
    post: _
    """
    q, d = pick(QUERIES, qi), pick(DOCS, di)
    files = _Files()
    files.read["doc.json"] = d
    argv: List[str] = []
    if debug:
        argv.append("--debug")
    if pretty:
        argv.append("--pretty")
    if nue:
        argv.append("--no-unicode-escape")
    argv.append("path")
    if viafile:
        files.read["query.txt"] = q + "\n"
        argv += ["-r", "query.txt"]
    else:
        argv += ["-q", q]
    if not stdin_doc:
        argv += ["-f", "doc.json"]
    if outfile:
        argv += ["-o", "out.json"]
    if ntc:
        argv.append("--no-type-checks")
    res = _run(argv, files, stdin=(d if isinstance(d, str) else "{}") if stdin_doc else "")
    exp = _expected(lambda: jsonpath.JSONPathEnvironment(unicode_escape=not nue, well_typed=not ntc).compile(q.strip() if viafile else q).findall(_asfile(d)))
    return ok(_judge(res, exp, pretty, debug, outfile, files))


def pointer_cmd(pi: int, di: int, pretty: bool, nue: bool, debug: bool, uri: bool, viafile: bool, outfile: bool) -> bool:
    """`json pointer`.

    pre: 0 <= pi < len(POINTERS) and 0 <= di < len(DOCS) and LO <= pi <= HI
    pre: (MODE == "semantics" and not pretty and not outfile and not debug and di < NDOCS) or (MODE == "plumbing" and pi in PLUMB_E and di in PLUMB_D and not nue and not uri)
    post: _
    """
    p, d = pick(POINTERS, pi), pick(DOCS, di)
    files = _Files()
    files.read["doc.json"] = d
    argv: List[str] = []
    if debug:
        argv.append("--debug")
    if pretty:
        argv.append("--pretty")
    if nue:
        argv.append("--no-unicode-escape")
    argv.append("pointer")
    if viafile:
        files.read["ptr.txt"] = p + "\n"
        argv += ["-r", "ptr.txt"]
    else:
        argv += ["-p", p]
    argv += ["-f", "doc.json"]
    if outfile:
        argv += ["-o", "out.json"]
    if uri:
        argv.append("-u")
    res = _run(argv, files)
    exp = _expected(lambda: jsonpath.pointer.resolve(p.strip() if viafile else p, _asfile(d), unicode_escape=not nue, uri_decode=uri))
    return ok(_judge(res, exp, pretty, debug, outfile, files))


def patch_cmd(pi: int, di: int, pretty: bool, nue: bool, debug: bool, uri: bool, outfile: bool) -> bool:
    """`json patch`.

    pre: 0 <= pi < len(PATCHES) and 0 <= di < len(DOCS) and LO <= pi <= HI
    pre: (MODE == "semantics" and not pretty and not outfile and not debug and di < NDOCS) or (MODE == "plumbing" and pi in PLUMB_E and di in PLUMB_D and not nue and not uri)
    post: _
    """
    p, d = pick(PATCHES, pi), pick(DOCS, di)
    files = _Files()
    files.read["doc.json"] = d
    files.read["patch.json"] = p
    argv: List[str] = []
    if debug:
        argv.append("--debug")
    if pretty:
        argv.append("--pretty")
    if nue:
        argv.append("--no-unicode-escape")
    argv += ["patch", "patch.json", "-f", "doc.json"]
    if outfile:
        argv += ["-o", "out.json"]
    if uri:
        argv.append("-u")
    res = _run(argv, files)

    def lib() -> Any:
        ops = json.loads(p)
        if not isinstance(ops, list):
            raise JSONPatchError("not an array")
        return jsonpath.patch.apply(ops, _asfile(d), unicode_escape=not nue, uri_decode=uri)

    exp = _expected(lib)
    return ok(_judge(res, exp, pretty, debug, outfile, files))
