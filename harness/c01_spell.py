"""Native replay target for spelling obligations (deterministic, no symbolic inputs)."""
import jsonpath

from vlib import oracle


def same_shape(canon: str, text: str) -> bool:
    env = jsonpath.JSONPathEnvironment()
    return oracle.shape(env.compile(canon)) == oracle.shape(env.compile(text))
